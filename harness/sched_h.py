'''Scheduler / farm harness: drives the REAL dawgie.pl.schedule, dawgie.pl.farm
(Hand protocol objects included) and dawgie.pl.dag on a generated engine with
environment inputs chosen by TLC, and records one trace line per event.

Ground truth about executing work is taken from the *bytes written to the fake
worker transports* (decoded with the real message.loads), not from the
scheduler's own bookkeeping.

usage: python -m harness.sched_h <jobs.json> <out.ndjson>
 jobs.json = {"jobs": [ {"id":..., "desc": <engine descriptor>, "targets": [...],
                         "events": [ {"ev": "Run", ...}, ... ], "drain": true} ]}
'''

import collections
import datetime
import json
import os
import shutil
import struct
import sys
import zlib

from vlib import boot, engine

REACTOR, WORK = boot.boot()

import dawgie  # noqa: E402
import dawgie.context  # noqa: E402
import dawgie.db  # noqa: E402
import dawgie.pl.dag  # noqa: E402
import dawgie.pl.farm as farm  # noqa: E402
import dawgie.pl.logger.chronicle as chronicle  # noqa: E402
import dawgie.pl.message as message  # noqa: E402
import dawgie.pl.schedule as schedule  # noqa: E402
import dawgie.pl.version  # noqa: E402
import dawgie.security  # noqa: E402

ALL = '__all__'
Addr = collections.namedtuple('Addr', ['host', 'port'])

dawgie.security.use_tls = lambda: True  # environment: no legacy handshake on this channel (Frame covers it)
dawgie.context.allow_promotion = False


class Fsm:
    '''environment of the farm: the life-cycle bits it reads'''

    def __init__(self):
        self.active = True
        self.crew_wait = False
        self.archived = 0

    def is_pipeline_active(self):
        return self.active

    def waiting_on_crew(self):
        return self.crew_wait

    def archiving_trigger(self):
        self.archived += 1


class Transport:
    def __init__(self, world, wid):
        self.world = world
        self.wid = wid
        self.buf = b''
        self.raw = b''  # everything written, for a real client reading the other end
        self.closed = False

    def write(self, b):
        if self.closed:
            self.world.obs['write_after_close'] = self.world.obs.get('write_after_close', 0) + 1
            return
        self.buf += b
        self.raw += b
        while len(self.buf) >= 4:
            n = struct.unpack('>I', self.buf[:4])[0]
            if len(self.buf) < 4 + n:
                break
            m = message.loads(self.buf[4 : 4 + n])
            self.buf = self.buf[4 + n :]
            self.world.on_written(self.wid, m)

    def loseConnection(self):
        if not self.closed:
            self.closed = True
            self.world.closing.append(self.wid)


Insight = collections.namedtuple('Insight', ['cpu', 'summary'])


class World:
    def __init__(self, desc, targets, rev='rev0'):
        self.desc = desc
        self.targets = list(targets)
        self.fsm = Fsm()
        dawgie.context.fsm = self.fsm
        dawgie.context.git_rev = rev
        dawgie.db.targets = lambda: list(self.targets)
        dawgie.db.next = self.db_next
        self.stored_max = 0
        self.msgseq = 0
        self.wseq = 0
        self.workers = {}  # wid -> dict(hand, transport, rev, registered, connected, holds)
        self.inflight = []  # ground truth: dicts alg,t,run,msgid,w,stale
        self.obs = new_obs()
        self.closing = []
        self.chron = []
        self._orig_append = chronicle.append
        chronicle.append = self.chron_append
        self._orig_put = farm._put
        farm._put = self.put
        self.clock = datetime.datetime(2024, 1, 10, 12, 0, 0, tzinfo=datetime.UTC)
        shutil.rmtree(os.path.join(dawgie.context.data_dbs, 'chronicles'), True)
        farm.clear()
        farm.ARCHIVE = False
        farm._agency[0] = None
        # placement advice: with no cloud provider configured every unit must still go to the cluster crew,
        # whatever its metric history says (auto placement) -- a third of the units are advised `cloud`
        farm.insights.clear()
        for t in list(targets) + [ALL]:
            for a in engine.alg_names(desc):
                if zlib.crc32(f'{t}.{a}'.encode()) % 3 == 0:
                    farm.insights[f'{t}.{a}'] = Insight(0, dawgie.Distribution.cloud)
        schedule.que = []
        schedule.per = []
        schedule.booted.clear()
        schedule.pipeline_paused = False
        schedule.promote.clear()
        self.facs = engine.load(desc)
        self.build(set())
        self.algs = engine.alg_names(desc)

    def close(self):
        chronicle.append = self._orig_append
        farm._put = self._orig_put

    # ---- environment stubs ------------------------------------------------
    def db_next(self):
        r = self.stored_max + 1
        self.obs.setdefault('drawn', []).append({'run': r, 'stored_max': self.stored_max})
        return r

    def chron_append(self, entry):
        self._orig_append(entry)
        self.chron.append(entry)
        self.obs.setdefault('chron', []).append(
            {
                'alg': entry['task'],
                't': entry['target'],
                'run': entry['runid'] if entry['runid'] is not None else -1,
                'status': entry['status'],
            }
        )

    def put(self, job, runid, target, where):
        n = len(farm._cluster)
        self._orig_put(job=job, runid=runid, target=target, where=where)
        for m in farm._cluster[n:]:
            self.obs.setdefault('put', []).append(self.msg_view(m))

    @staticmethod
    def msg_view(m):
        return {
            'alg': m.jobid,
            't': m.target if m.target else ALL,
            'run': m.runid if m.runid is not None else -1,
            'fac': list(m.factory) if m.factory else [],
        }

    def on_written(self, wid, m):
        w = self.workers[wid]
        if m.type == message.Type.task:
            self.msgseq += 1
            v = self.msg_view(m)
            v.update(w=wid, msgid=self.msgseq, wreg=w['registered'], wrev=w['rev'] or '', wconn=w['connected'], wholds=w['holds'], active=self.fsm.active)
            self.obs.setdefault('written', []).append(v)
            w['holds'] += 1
            self.inflight.append({'alg': v['alg'], 't': v['t'], 'run': v['run'], 'msgid': self.msgseq, 'w': wid, 'stale': False, 'timing': m.timing})
        else:
            kind = m.type.name
            if m.type == message.Type.response:
                kind = 'proceed' if m.success else 'abort'
            self.obs.setdefault('told', []).append({'w': wid, 'msg': kind})

    # ---- graph access -----------------------------------------------------
    def nodes(self):
        res = {}
        for root in schedule.ae.at:
            for n in root.iter():
                res[n.tag] = n
        return res

    def build(self, bumped):
        '''schedule.build with the persisted versions differing for `bumped`'''
        facs = self.facs
        latest = dawgie.pl.version.current(
            facs[dawgie.Factories.analysis] + facs[dawgie.Factories.regress] + facs[dawgie.Factories.task]
        )
        prev_alg = {k: ['0.0.1'] if k in bumped else [v] for k, v in latest[0].items()}
        prev_sv = {k: [v] for k, v in latest[1].items()}
        prev_v = {k: [v] for k, v in latest[2].items()}
        schedule.build(facs, latest, (None, prev_alg, prev_sv, prev_v))

    # ---- events -----------------------------------------------------------
    def settle(self):
        '''Twisted contract: after loseConnection the protocol gets connectionLost and no more data'''
        while self.closing:
            wid = self.closing.pop(0)
            w = self.workers[wid]
            if w['connected']:
                w['connected'] = False
                w['hand'].connectionLost(None)

    def new_worker(self, rev=None, host='h'):
        self.wseq += 1
        wid = self.wseq
        hand = farm.Hand(Addr(host, wid))
        tr = Transport(self, wid)
        hand.transport = tr
        self.workers[wid] = {'hand': hand, 'transport': tr, 'rev': rev, 'registered': False, 'connected': True, 'holds': 0}
        return wid

    def feed(self, wid, m, chunks=None):
        data = message.dumps(m)
        data = struct.pack('>I', len(data)) + data
        w = self.workers[wid]
        if w['transport'].closed or not w['connected']:
            return
        try:
            w['hand'].dataReceived(data)
        except Exception as ex:  # pylint: disable=broad-except
            # what the reactor does with an exception escaping dataReceived: log it, drop the connection
            self.obs.setdefault('raised', []).append(type(ex).__name__)
            w['connected'] = False
            w['transport'].closed = True
            w['hand'].connectionLost(None)

    def ev_register(self, rev=None, wid=None):
        rev = dawgie.context.git_rev if rev is None else rev
        if wid is None:
            wid = self.new_worker(rev)
        w = self.workers[wid]
        w['rev'] = rev
        n = len(farm._workers)
        # the incarnation number is the launcher's business (the repository's own launchers start workers with -i 0)
        self.feed(wid, message.make(typ=message.Type.register, inc=wid % 2, rev=rev))
        w['registered'] = any(h is w['hand'] for h in farm._workers)
        self.settle()
        return wid

    def ev_lost(self, wid):
        w = self.workers.get(wid)
        if w and w['connected']:
            w['connected'] = False
            w['transport'].closed = True
            w['hand'].connectionLost(None)

    def ev_poll(self, rev=None):
        rev = dawgie.context.git_rev if rev is None else rev
        wid = self.new_worker(rev)
        self.feed(wid, message.make(typ=message.Type.status, rev=rev))
        self.settle()
        return wid

    def ev_run(self, S, T):
        import dawgie.fe.api

        dawgie.fe.api.cmd_run(list(S), list(T))

    def ev_tick(self, auto_workers=8):
        if auto_workers:
            while len(farm._workers) < auto_workers and self.fsm.active:
                self.ev_register()
            self.obs['told'] = []
        farm.dispatch()
        # a worker that was handed a task disconnects (worker/cluster.py: s.close())
        for wid, w in self.workers.items():
            if w['holds'] and w['connected']:
                w['connected'] = False
                w['transport'].closed = True
                w['hand'].connectionLost(None)
        self.settle()

    def ev_tick_fault(self, k, auto_workers=8):
        '''a dispatch pass in which the (k+1)-th call of rerunid() raises, as the code expects the database to do'''
        orig = farm.rerunid
        calls = [0]

        def rerunid(job):
            calls[0] += 1
            if calls[0] > k:
                raise RuntimeError('database is not answering')
            return orig(job)

        farm.rerunid = rerunid
        try:
            self.ev_tick(auto_workers)
        finally:
            farm.rerunid = orig
        self.obs['faulted'] = calls[0] > k

    def ev_reply(self, alg, t, out, new, old=None):
        cands = [u for u in self.inflight if u['alg'] == alg and u['t'] == t and (old is None or u['stale'] == old)]
        if not cands:
            return False
        u = cands[0]
        self.inflight.remove(u)
        a = engine.alg_of(self.desc, alg)
        suc = {'success': True, 'empty': True, 'failure': False, 'invalid': None}[out]
        vals = [] if out == 'empty' else None
        if out == 'success':
            vals = [
                ('.'.join([str(u['run']), t, alg, sv['name'], v['name']]), (sv['name'] + '.' + v['name']) in new)
                for sv in a['svs']
                for v in sv['vals']
            ]
            if u['run'] > self.stored_max:
                self.stored_max = u['run']
        if out == 'empty' and u['run'] > self.stored_max:
            self.stored_max = u['run']
        self.obs['reply'] = [{'alg': alg, 't': t, 'run': u['run'], 'msgid': u['msgid'], 'stale': u['stale'], 'out': out}]
        wid = self.new_worker(dawgie.context.git_rev)
        tim = dict(u['timing']) if u.get('timing') else {}
        # the worker stamps the start of the run with ITS clock at the time it runs: later than any (re)load so far
        tim['started'] = datetime.datetime.now(datetime.UTC)
        self.feed(
            wid,
            message.make(typ=message.Type.response, inc=(None if t == ALL else t), jid=alg, rid=u['run'], suc=suc, tim=tim, val=vals),
        )
        self.ev_lost(wid)
        self.settle()
        return True

    def ev_reload(self, S):
        farm.notify_all()
        farm.clear()
        self.settle()
        for u in self.inflight:
            u['stale'] = True
        self.facs = engine.load(self.desc)
        self.build(set(S))

    def ev_setactive(self, v):
        self.fsm.active = bool(v)

    def ev_pause(self, v):
        (schedule.pause if v else schedule.unpause)()

    def ev_notify(self):
        farm.notify_all()
        self.settle()

    # ---- projection -------------------------------------------------------
    def snapshot(self):
        nodes = self.nodes()
        st = {
            'todo': {k: sorted(n.get('todo')) for k, n in nodes.items()},
            'doing': {k: sorted(n.get('doing')) for k, n in nodes.items()},
            'do': {k: sorted(n.get('do')) for k, n in nodes.items()},
            'status': {k: n.get('status').name for k, n in nodes.items()},
            'runid': {k: (n.get('runid') if n.get('runid') is not None else -1) for k, n in nodes.items()},
            'que': [j.tag for j in schedule.que],
            'cluster': [self.msg_view(m) for m in farm._cluster],
            'jobs': [j.tag for j in farm._jobs],
            # released by next_job_batch but no task message made yet (left in farm._jobs by a pass that raised)
            'held': {k: (sorted(n.get('do')) if any(j is n for j in farm._jobs) else []) for k, n in nodes.items()},
            'busy': sorted(farm._busy),
            'idle': len(farm._workers),
            'inflight': [{'alg': u['alg'], 't': u['t'], 'run': u['run'], 'msgid': u['msgid'], 'w': u['w'], 'stale': u['stale']} for u in self.inflight],
            'view_todo': [{'name': d['name'], 'targets': d['targets']} for d in schedule.view_todo()],
            'view_doing': [{'name': k, 'targets': v} for k, v in sorted(schedule.view_doing().items())],
            'crew_busy': len(farm.crew()['busy']),
            'active': self.fsm.active,
            'paused': schedule.is_paused(),
            'stored_max': self.stored_max,
            'archive': bool(farm.ARCHIVE),
            'rev': dawgie.context.git_rev,
        }
        return st

    def chron_files(self):
        res = []
        base = os.path.join(dawgie.context.data_dbs, 'chronicles')
        for dp, _dn, fns in os.walk(base):
            for fn in fns:
                with open(os.path.join(dp, fn), 'rt', encoding='utf-8') as f:
                    for e in json.load(f):
                        res.append({'alg': e['task'], 't': e['target'], 'run': e['runid'] if e['runid'] is not None else -1, 'status': e['status']})
        return res


def prog_view(desc):
    '''the declared program, as the trace specification wants it (declarative facts only)'''
    algs = engine.alg_names(desc)
    kind, ins, vals, fb = {}, {}, {}, {}
    for p in desc['pkgs']:
        for a in p['algs']:
            tag = f'{p["name"]}.{a["name"]}'
            kind[tag] = a['kind']
            vals[tag] = [f'{sv["name"]}.{v["name"]}' for sv in a['svs'] for v in sv['vals']]

    def expand(refs):
        out = []
        for r in refs:
            src = f'{r["pkg"]}.{r["alg"]}'
            sa = engine.alg_of(desc, src)
            for sv in sa['svs']:
                if r.get('gran', 'alg') in ('sv', 'val') and sv['name'] != r['sv']:
                    continue
                for v in sv['vals']:
                    if r.get('gran', 'alg') == 'val' and v['name'] != r['val']:
                        continue
                    out.append([src, f'{sv["name"]}.{v["name"]}'])
        return out

    for p in desc['pkgs']:
        for a in p['algs']:
            tag = f'{p["name"]}.{a["name"]}'
            ins[tag] = expand(a.get('refs', []))
            fb[tag] = expand(a.get('feedback', []))
    return {'algs': algs, 'kind': kind, 'ins': ins, 'vals': vals, 'fb': fb}


def new_obs():
    return {'put': [], 'written': [], 'chron': [], 'drawn': [], 'told': [], 'reply': [], 'wid': 0, 'write_after_close': 0, 'raised': [], 'faulted': False}


SAME = {'t0.a': 't0.x', 't1.b': 't1.x', 't2.c': 't2.x', 't3.d': 't3.x'}


def deep_sub(x, m):
    if isinstance(x, dict):
        return {deep_sub(k, m): deep_sub(v, m) for k, v in x.items()}
    if isinstance(x, (list, tuple)):
        return [deep_sub(v, m) for v in x]
    if isinstance(x, str):
        for a, b in m.items():
            if a in x:
                x = x.replace(a, b)
    return x


def run_job(job):
    if job.get('same_names'):
        # algorithm names are unique within a task only: every algorithm of this history is called `x` (t0.x, t1.x, ...);
        # the record is translated back to the names of the model
        j2 = deep_sub({k: v for k, v in job.items() if k not in ('same_names', 'desc')}, SAME)
        desc = json.loads(json.dumps(job['desc']))
        for p in desc['pkgs']:
            for a in p['algs']:
                a['name'] = 'x'
                for r in a.get('refs', []) + a.get('feedback', []):
                    r['alg'] = 'x'
        j2['desc'] = desc
        res = run_job_named(j2)
        res = deep_sub(res, {b: a for a, b in SAME.items()})
        res['prog'] = prog_view(job['desc'])
        return res
    return run_job_named(job)


def run_job_named(job):
    w = World(job['desc'], job['targets'])
    steps = []
    try:
        w.obs = new_obs()
        steps.append({'ev': 'Init', 'args': {'x': 0}, 'st': w.snapshot(), 'obs': new_obs()})
        events = list(job['events'])
        skipped = 0
        i = 0
        sweep = job.get('drain', True) and any(e.get('out') in ('failure', 'invalid') or e['ev'] in ('TickFault', 'Reload') for e in events)
        while True:
            if i >= len(events):
                if not job.get('drain', True):
                    break
                # drain: dispatch until nothing changes, then one in-flight unit answers (success, nothing new), repeat
                before = json.dumps(w.snapshot(), sort_keys=True)
                w.obs = new_obs()
                w.ev_tick()
                obs = w.obs
                after = w.snapshot()
                steps.append({'ev': 'Tick', 'args': {'auto': 8}, 'st': after, 'obs': obs})
                if json.dumps(after, sort_keys=True) != before and len(steps) < 400:
                    continue
                if w.inflight and len(steps) < 400:
                    u = w.inflight[0]
                    events.append({'ev': 'Reply', 'alg': u['alg'], 't': u['t'], 'out': 'success', 'new': []})
                elif sweep and len(steps) < 300:
                    # at quiescence after a history with withdrawals, faults or reloads: everything is requested once
                    # more -- whatever the bookkeeping remembers wrongly now keeps a unit from being released or recorded
                    sweep = False
                    events.append({'ev': 'Run', 'S': list(w.algs), 'T': list(w.targets)})
                else:
                    break
            e = events[i]
            i += 1
            w.obs = new_obs()
            ok = True
            ev = e['ev']
            if ev == 'Run':
                w.ev_run(e['S'], e['T'])
            elif ev == 'Tick':
                w.ev_tick(e.get('auto', 8))
            elif ev == 'TickFault':
                w.ev_tick_fault(e.get('k', 0), e.get('auto', 8))
            elif ev == 'Reply':
                ok = w.ev_reply(e['alg'], e['t'], e['out'], e.get('new', []), e.get('old'))
            elif ev == 'Reload':
                w.ev_reload(e.get('S', []))
            elif ev == 'Register':
                w.obs['wid'] = w.ev_register(e.get('rev'))
            elif ev == 'Lost':
                w.ev_lost(e['w'])
            elif ev == 'Poll':
                w.obs['wid'] = w.ev_poll(e.get('rev'))
            elif ev == 'SetActive':
                w.ev_setactive(e['v'])
            elif ev == 'Pause':
                w.ev_pause(e['v'])
            elif ev == 'Notify':
                w.ev_notify()
            else:
                raise ValueError(ev)
            if not ok:
                skipped += 1
                continue
            args = {k: v for k, v in e.items() if k != 'ev'} or {'x': 0}
            steps.append({'ev': ev, 'args': args, 'st': w.snapshot(), 'obs': w.obs})
        final = {'chron_files': w.chron_files(), 'chron_calls': len(w.chron), 'skipped': skipped}
    finally:
        w.close()
    return {'tid': job['id'], 'prog': prog_view(job['desc']), 'targets': job['targets'], 'steps': steps, 'final': final}


def main():
    with open(sys.argv[1], 'rt', encoding='utf-8') as f:
        jobs = json.load(f)['jobs']
    import logging

    logging.disable(logging.CRITICAL)
    with open(sys.argv[2], 'wt', encoding='utf-8') as out:
        for job in jobs:
            out.write(json.dumps(run_job(job)) + '\n')


if __name__ == '__main__':
    main()
