'''Timer-event harness (C20).

mode "delay": runs the REAL dawgie.pl.schedule._delay for a specification built
    with the real dawgie.schedule() (and judged by the real
    dawgie.tools.compliant.rule_10) at every requested clock instant.  The wall
    clock is injected by shadowing the name `datetime` in the namespace of
    dawgie.pl.schedule (no source edit).
mode "shape": offers every shape of dawgie.MOMENT (fields absent / well typed /
    ill typed) to the REAL rule_10, applied the way tools.compliant applies it to
    a task module's events(); an accepted shape is evaluated by the real _delay.
mode "fire":  drives the REAL schedule.periodics / defer / pause / unpause /
    next_job_batch / complete (through farm.dispatch and farm.Hand, see harness/sched_h.World) on
    a generated engine with one or two periodic nodes in different packages (the
    short algorithm names may coincide: t0.a and t1.a); wall clock = virtual reactor
    clock (MemoryReactorClock); the reactor's delayed calls are the timers.

Instants are integer seconds since the epoch of the specification calendar
(spec/Moment.tla); the epoch and the calendar date of every instant used are
given by TLC, the harness only adds seconds to the epoch.

usage: python -m harness.moment_h <jobs.json> <out.ndjson>
'''

import datetime as real_datetime
import json
import sys
import types

from vlib import boot

REACTOR, WORK = boot.boot()

import dawgie  # noqa: E402
import dawgie.pl.schedule as schedule  # noqa: E402
import dawgie.tools.compliant as compliant  # noqa: E402

ALL = '__all__'


class Clock:
    '''the injected wall clock'''

    def __init__(self):
        self.fn = None

    def now(self):
        return self.fn()


CLOCK = Clock()


class _FakeDateTime(real_datetime.datetime):
    @classmethod
    def now(cls, tz=None):
        n = CLOCK.now()
        return cls(n.year, n.month, n.day, n.hour, n.minute, n.second, n.microsecond, tzinfo=tz)


FAKE = types.SimpleNamespace(
    **{k: getattr(real_datetime, k) for k in ('UTC', 'timedelta', 'date', 'time', 'timezone', 'tzinfo', 'MINYEAR', 'MAXYEAR')},
    datetime=_FakeDateTime,
)


def shadow(on=True):
    schedule.datetime = FAKE if on else real_datetime


def hms(t):
    return real_datetime.time(t // 3600, (t % 3600) // 60, t % 60)


# ------------------------------------------------------------------ mode delay
def _dummy_factory(*_a, **_k):
    return None


class _DummyImpl:
    def name(self):
        return 'impl'


def make_event(spec):
    kw = {'time': hms(spec['t'])}
    if spec['k'] == 'dow':
        kw['dow'] = spec['n']
    elif spec['k'] == 'dom':
        kw['dom'] = spec['n']
    elif spec['k'] == 'day':
        kw['day'] = real_datetime.date(*spec['date'])
    else:
        raise ValueError(spec['k'])
    return dawgie.schedule(_dummy_factory, _DummyImpl(), **kw)


def accepted(event):
    '''the verdict of the real compliance rule on an engine whose events() offers this event'''
    mod = types.ModuleType('verif_moment_events')
    mod.events = lambda: [event]
    sys.modules[mod.__name__] = mod
    try:
        return bool(compliant.rule_10(mod.__name__))
    finally:
        del sys.modules[mod.__name__]


DELAY_FN = [None]  # replaced by the mutation self-test only (VERIF_C20_MUTANT)


def run_delay(job):
    epoch = real_datetime.datetime(*job['epoch'], tzinfo=real_datetime.UTC)
    spec = job['spec']
    zero = {'now': 0, 'y': 0, 'm': 0, 'd': 0, 'wd': 0}
    try:
        event = make_event(spec)
        acc = accepted(event)
        built = ''
    except Exception as ex:  # the constructor rejects it: outside the quantifier
        event, acc, built = None, False, type(ex).__name__
    steps = [{'ev': 'Init', 'args': zero, 'obs': {'ok': True, 'd': 0, 'exc': built}}]
    fn = DELAY_FN[0] or schedule._delay
    shadow(True)
    try:
        for now in job['nows'] if event is not None else []:
            at = epoch + real_datetime.timedelta(seconds=now)
            CLOCK.fn = lambda at=at: at
            args = {'now': now, 'y': at.year, 'm': at.month, 'd': at.day, 'wd': at.isoweekday() - 1}
            try:
                td = fn(event)
                us = td.days * 86400 * 10**6 + td.seconds * 10**6 + td.microseconds
                if us % 10**6:
                    raise RuntimeError(f'non integral delay {td!r}')
                obs = {'ok': True, 'd': us // 10**6, 'exc': ''}
            except RuntimeError:
                raise
            except Exception as ex:
                obs = {'ok': False, 'd': 0, 'exc': type(ex).__name__}
            steps.append({'ev': 'Delay', 'args': args, 'obs': obs})
    finally:
        shadow(False)
    shape = {f: ('ok' if f in (spec['k'], 'time') else 'none') for f in ('boot', 'day', 'dom', 'dow', 'time')}
    return {'tid': job['id'], 'mode': 'delay', 'spec': {'k': spec['k'], 'n': spec['n'], 't': spec['t']}, 'shape': shape, 'acc': acc, 'steps': steps}


# ------------------------------------------------------------------ mode shape
def make_shape_event(shape, values):
    '''a dawgie.EVENT whose MOMENT has exactly the given shape, built the way an engine may build it
    (the namedtuples are public; dawgie.schedule() is only a convenience and checks less than rule_10)'''
    ok = {
        'boot': True,
        'day': real_datetime.date(*values['day']),
        'dom': values['dom'],
        'dow': values['dow'],
        'time': hms(values['time']),
    }
    bad = {'day': '%04d-%02d-%02d' % tuple(values['day']), 'dom': str(values['dom']), 'dow': str(values['dow']), 'time': '12:00:00'}
    fields = {f: (None if st == 'none' else ok[f] if st == 'ok' else bad[f]) for f, st in shape.items()}
    return dawgie.EVENT(dawgie.ALG_REF(_dummy_factory, _DummyImpl()), dawgie.MOMENT(**fields))


def run_shape(job):
    '''the domain of the property comes from the REAL compliance rule: every shape is offered to
    rule_10; for an accepted one the real _delay runs at the given instants'''
    epoch = real_datetime.datetime(*job['epoch'], tzinfo=real_datetime.UTC)
    shape = job['shape']
    zero = {'now': 0, 'y': 0, 'm': 0, 'd': 0, 'wd': 0}
    event = make_shape_event(shape, job['values'])
    try:
        acc = accepted(event)
        note = ''
    except Exception as ex:  # the rule itself fails on this shape: not accepted
        acc, note = False, type(ex).__name__
    steps = [{'ev': 'Init', 'args': zero, 'obs': {'ok': True, 'd': 0, 'exc': note}}]
    fn = DELAY_FN[0] or schedule._delay
    shadow(True)
    try:
        for now in job['nows'] if acc else []:
            at = epoch + real_datetime.timedelta(seconds=now)
            CLOCK.fn = lambda at=at: at
            args = {'now': now, 'y': at.year, 'm': at.month, 'd': at.day, 'wd': at.isoweekday() - 1}
            schedule.booted.clear()  # every evaluation is the first one of its process
            try:
                td = fn(event)
                us = td.days * 86400 * 10**6 + td.seconds * 10**6 + td.microseconds
                if us % 10**6:
                    raise RuntimeError(f'non integral delay {td!r}')
                obs = {'ok': True, 'd': us // 10**6, 'exc': ''}
            except RuntimeError:
                raise
            except Exception as ex:
                obs = {'ok': False, 'd': 0, 'exc': type(ex).__name__}
            steps.append({'ev': 'Delay', 'args': args, 'obs': obs})
    finally:
        schedule.booted.clear()
        shadow(False)
    return {'tid': job['id'], 'mode': 'shape', 'spec': {'k': 'none', 'n': 0, 't': 0}, 'shape': shape, 'acc': acc, 'steps': steps}


# ------------------------------------------------------------------- mode fire
def fire_desc(cfg):
    '''engine descriptor: one package per periodic node "<pkg>.<alg>" with the events of the configuration'''
    pkgs = []
    for tag in sorted(cfg['nodes']):
        node = cfg['nodes'][tag]
        pkg, alg = tag.split('.')
        evs = []
        for e in node['events']:
            hms3 = [e['t'] // 3600, (e['t'] % 3600) // 60, e['t'] % 60]
            if e['k'] == 'boot':
                evs.append({'boot': True})
            elif e['k'] == 'day':
                evs.append({'day': e['date'], 'time': hms3})
            else:
                evs.append({e['k']: e['n'], 'time': hms3})
        pkgs.append(
            {
                'name': pkg,
                'algs': [
                    {
                        'name': alg,
                        'kind': node['kind'],
                        'ver': [1, 0, 0],
                        'svs': [{'name': 's', 'ver': [1, 0, 0], 'vals': [{'name': 'v', 'ver': [1, 0, 0]}]}],
                        'refs': [],
                        'feedback': [],
                        'events': evs,
                    }
                ],
            }
        )
    return {'base': 'vae', 'pkgs': pkgs}


MUTATE = [None]  # hook of the mutation self-test: called with the schedule module before a job


def run_fire(job):
    from harness import sched_h

    cfg = job['cfg']
    epoch = real_datetime.datetime(*job['epoch'], tzinfo=real_datetime.UTC)
    horizon = job['horizon']
    for c in list(REACTOR.getDelayedCalls()):
        c.cancel()
    shadow(False)
    w = sched_h.World(fire_desc(cfg), ['T1'])
    r0 = REACTOR.seconds()
    state = {'up': False, 'defers': 0, 'err': '', 'paused': False}

    def instant():
        return cfg['start'] + int(round(REACTOR.seconds() - r0))

    CLOCK.fn = lambda: epoch + real_datetime.timedelta(seconds=cfg['start'] + (REACTOR.seconds() - r0))
    schedule.booted.clear()
    orig_defer = schedule.defer

    def counting_defer():
        state['defers'] += 1
        try:
            return orig_defer()
        except Exception as ex:
            state['err'] = type(ex).__name__
            raise

    schedule.defer = counting_defer
    shadow(True)
    if MUTATE[0]:
        MUTATE[0](schedule)
    steps = []

    tags = sorted(cfg['nodes'])
    epoch_s = int(epoch.timestamp())

    def served_of(node, n):
        '''node attribute 'served' (event index -> POSIX second of the occurrence it fired for), as instants'''
        sv = node.get('served') or {}
        return [int(sv[i]) - epoch_s if i in sv else -1 for i in range(n)]

    def snap():
        nodes = w.nodes()
        ex = {tag: set() for tag in tags}
        for u in w.inflight:
            if not u['stale']:
                ex[u['alg']].add(u['t'])
        for m in sched_h.farm._cluster:
            ex[m.jobid].add(m.target if m.target else ALL)
        timers = sorted(cfg['start'] + int(round(c.getTime() - r0)) for c in REACTOR.getDelayedCalls())
        return {
            'up': state['up'],
            'clock': instant(),
            'timers': timers,
            'targets': sorted(w.targets),
            'nbooted': len(schedule.booted),
            'status': {tag: nodes[tag].get('status').name for tag in tags},
            'nque': {tag: sum(1 for j in schedule.que if j is nodes[tag]) for tag in tags},
            'todo': {tag: sorted(nodes[tag].get('todo')) for tag in tags},
            'exec': {tag: sorted(ex[tag]) for tag in tags},
            'served': {tag: served_of(nodes[tag], len(cfg['nodes'][tag]['events'])) for tag in tags},
        }

    def log(ev, dt=0, t='', n=''):
        steps.append({'ev': ev, 'args': {'dt': dt, 't': t, 'n': n}, 'st': snap(), 'obs': {'err': state['err'], 'defers': state['defers']}})
        state['err'] = ''
        state['defers'] = 0

    def next_timer():
        calls = REACTOR.getDelayedCalls()
        return min(c.getTime() for c in calls) - REACTOR.seconds() if calls else None

    def ev_tick():
        dt = next_timer()
        if dt is None or instant() + dt >= horizon:
            return False
        REACTOR.advance(dt)
        log('Tick')
        return True

    def ev_advance(dt):
        '''the clock moves by dt; timers that become due on the way run at their own time'''
        if instant() + dt >= horizon:
            return False
        left = dt
        while True:
            nt = next_timer()
            if nt is None or nt > left:
                break
            REACTOR.advance(nt)
            left -= nt
            log('Tick')
        if left > 0:
            REACTOR.advance(left)
            log('Advance', dt=int(round(left)))
        return True

    def ev_latetick(late):
        '''the reactor is busy / the host was suspended: the earliest request runs `late` seconds after it was due'''
        calls = REACTOR.getDelayedCalls()
        if not state['up'] or not calls:
            return False
        first = min(c.getTime() for c in calls)
        dt = first - REACTOR.seconds()
        if instant() + dt + late >= horizon or any(first < c.getTime() <= first + late for c in calls):
            return False
        REACTOR.advance(dt + late)
        log('LateTick', dt=late)
        return True

    def ev_pause(on):
        '''the operator holds / releases the pipeline (what the front end's pause button calls)'''
        if not state['up'] or state['paused'] == on:
            return False
        state['paused'] = on
        if on:
            schedule.pause()
        else:
            schedule.unpause()
        log('Pause' if on else 'Unpause')
        return True

    def ev_boot():
        if state['up']:
            return False
        state['up'] = True
        try:
            schedule.periodics(w.facs[dawgie.Factories.events])
        except Exception as ex:  # what state.FSM._pipeline would see
            state['err'] = type(ex).__name__
        log('Boot')
        return True

    def ev_dispatch():
        if not state['up']:
            return False
        before = len(w.inflight)
        w.obs = sched_h.new_obs()
        w.ev_tick()
        if len(w.inflight) == before:
            return False
        log('Dispatch')
        return True

    def ev_complete(n, t):
        w.obs = sched_h.new_obs()
        # every other schedule: the units succeed WITHOUT storing anything (empty value list) -- then nothing
        # re-organises the queue after the completion
        out = 'empty' if int(job['id']) % 2 else 'success'
        if n not in tags or not w.ev_reply(n, t, out, []):
            return False
        log('Complete', t=t, n=n)
        return True

    def ev_newtarget():
        if 'T2' in w.targets:
            return False
        w.targets.append('T2')
        log('NewTarget')
        return True

    skipped = 0
    try:
        log('Init')
        for e in job['events']:
            ev = e['ev']
            if ev == 'Boot':
                ok = ev_boot()
            elif ev == 'Tick':
                ok = ev_tick()
            elif ev == 'Advance':
                ok = ev_advance(e['dt'])
            elif ev == 'Dispatch':
                ok = ev_dispatch()
            elif ev == 'Complete':
                ok = ev_complete(e['n'], e['t'])
            elif ev == 'NewTarget':
                ok = ev_newtarget()
            elif ev == 'LateTick':
                ok = ev_latetick(e['dt'])
            elif ev == 'Pause':
                ok = ev_pause(True)
            elif ev == 'Unpause':
                ok = ev_pause(False)
            elif ev == 'Skip':  # the clock of a held pipeline moves: the polls on the way are logged as Ticks
                ok = state['paused'] and ev_advance(e['dt'])
            else:
                raise ValueError(ev)
            skipped += 0 if ok else 1
        if job.get('drain', True) and state['up']:
            # drain with the monitors on: everything queued runs and answers,
            # then the clock moves on by a week and by a month (a held pipeline is released first)
            ev_pause(False)
            for dt in (0, 7 * 86400, 31 * 86400):
                if dt:
                    ev_advance(dt)
                for _ in range(8):
                    moved = ev_dispatch()
                    while w.inflight:
                        u = [x for x in w.inflight if not x['stale']]
                        if not u or not ev_complete(u[0]['alg'], u[0]['t']):
                            break
                        moved = True
                    if not moved:
                        break
    finally:
        schedule.defer = orig_defer
        schedule.unpause()
        shadow(False)
        for c in list(REACTOR.getDelayedCalls()):
            c.cancel()
        w.close()
    out_cfg = {
        'start': cfg['start'],
        'nodes': {tag: {'kind': nd['kind'], 'events': [{'k': e['k'], 'n': e['n'], 't': e['t']} for e in nd['events']]} for tag, nd in cfg['nodes'].items()},
    }
    return {'tid': job['id'], 'mode': 'fire', 'cfg': out_cfg, 'skipped': skipped, 'steps': steps}


def run_job(job):
    return {'delay': run_delay, 'shape': run_shape, 'fire': run_fire}[job['mode']](job)


# ------------------------------------------------------- in-memory mutants
# Binding self-test only (never written to /repo): VERIF_C20_MUTANT=<name> makes
# the harness run a mutated copy of the real function; the ordinary pipeline
# must then report a VIOLATION.
def install_mutant(name):
    real = schedule._delay

    if name == 'late_hour':  # designates an instant one hour off the moment -> Lands

        def mutant(when):
            return real(when) + real_datetime.timedelta(hours=1)

    elif name == 'dow_next_week':  # today's weekday always means next week -> NotFurther

        def mutant(when):
            d = real(when)
            if when.moment.dow is not None and d < real_datetime.timedelta(days=1):
                d += real_datetime.timedelta(days=7)
            return d

    elif name == 'leap_day_raises':  # 29 February cannot be computed -> Computable

        def mutant(when):
            d = real(when)
            then = _FakeDateTime.now(real_datetime.UTC) + d
            if (then.month, then.day) == (2, 29):
                raise ValueError('day is out of range for month')
            return d

    elif name == 'rule_time_optional':  # the compliance rule stops insisting on a time of day -> Computable (shape domain)
        mutant = None
        real_rule = compliant.rule_10

        def lenient(task):
            import importlib

            mod = importlib.import_module(task)
            hidden = []
            for e in mod.events():
                m = e.moment
                if m.boot is None and m.time is None:  # judge it as if it carried a time
                    e = dawgie.EVENT(e.algref, m._replace(time=hms(0)))
                hidden.append(e)
            orig, mod.events = mod.events, (lambda: hidden)
            try:
                return real_rule(task)
            finally:
                mod.events = orig

        compliant.rule_10 = lenient
    elif name == 'first_target_only':  # a due task is queued for one target only -> FireTargets
        mutant = None

        def mutate(_sched):
            from harness import sched_h

            full = sched_h.dawgie.db.targets
            sched_h.dawgie.db.targets = lambda: full()[:1]

        MUTATE[0] = mutate
    elif name == 'boot_by_short_name':  # boot events remembered by the algorithm's short name -> BootFires
        mutant = None

        def mutate(sched):
            def delay(when, real=real):
                if when.moment.boot is None:
                    return real(when)
                key = when.algref.impl.name()
                if key in sched.booted:
                    raise sched._DelayNotKnowableError()
                sched.booted.append(key)
                return _FakeDateTime.now(real_datetime.UTC) - _FakeDateTime.now(real_datetime.UTC)

            sched._delay = delay

        MUTATE[0] = mutate
    elif name == 'forget_served':  # the record of served occurrences is lost before every pass -> Once (repaired defer only)
        mutant = None

        def mutate(sched):
            inner = sched.defer

            def forgetful():
                for t in sched.per:
                    t.set('served', {})
                return inner()

            sched.defer = forgetful

        MUTATE[0] = mutate
    elif name == 'timer_late':  # the wake-up is requested an hour after the moment -> Armed
        mutant = None

        def mutate(sched):
            class Late:
                def __getattr__(self, k):
                    return getattr(REACTOR, k)

                def callLater(self, delay, *a, **k):
                    return REACTOR.callLater(delay + 3600, *a, **k)

            sched.twisted = types.SimpleNamespace(internet=types.SimpleNamespace(reactor=Late()))

        MUTATE[0] = mutate
    else:
        raise ValueError(f'unknown mutant {name}')
    if mutant is not None:
        DELAY_FN[0] = mutant
        MUTATE[0] = lambda sched: setattr(sched, '_delay', mutant)


def main():
    import os

    with open(sys.argv[1], 'rt', encoding='utf-8') as f:
        jobs = json.load(f)['jobs']
    if os.environ.get('VERIF_C20_MUTANT'):
        install_mutant(os.environ['VERIF_C20_MUTANT'])
    import logging

    logging.disable(logging.CRITICAL)
    with open(sys.argv[2], 'wt', encoding='utf-8') as out:
        for job in jobs:
            out.write(json.dumps(run_job(job)) + '\n')


if __name__ == '__main__':
    main()
