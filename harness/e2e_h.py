'''End-to-end harness (C02 end state through the REAL data path): the real
scheduler / farm decide what runs; every unit is executed by the REAL worker
code path dawgie.pl.worker.Context.run -> Task.do -> Dataset.load -> run() ->
Dataset.update against a REAL shelve database (through vlib/bridge.py), and the
novelty flags of the reply are the ones the store computed.  run() of the
generated algorithms is the pure function of spec/Sched_Data.tla.

Only task-kind programs (no analyses) are executed here; analyses are covered
by the abstract worker of harness/data_h.py.

usage: python -m harness.e2e_h <jobs.json> <out.ndjson>
'''

import hashlib
import importlib
import json
import os
import shutil
import subprocess
import sys
import types
import zlib

from harness import sched_h
from harness.sched_h import ALL, World, new_obs, message
from vlib import bridge, engine

import dawgie  # noqa: E402
import dawgie.context  # noqa: E402
import dawgie.db  # noqa: E402
import dawgie.db.util  # noqa: E402
import dawgie.pl.worker  # noqa: E402
from dawgie.db.shelve.state import DBI  # noqa: E402

ORDER = ['t0.a', 't1.b', 't2.c', 't3.d']
INORDER = [('t0.a', 's.v'), ('t0.a', 's.w'), ('t1.b', 's.v'), ('t2.c', 's.v'), ('t3.d', 's.v')]
_REAL_SUBPROCESS = dawgie.db.util.subprocess


def _digest_program(cmd, *_a, **_k):
    '''md5sum -b <fn> / sha1sum -b <fn> answered in process (same output format), 100x faster than spawning'''
    if cmd[0] not in ('md5sum', 'sha1sum') or cmd[1] != '-b':
        return _REAL_SUBPROCESS.check_output(cmd, *_a, **_k)
    h = hashlib.new(cmd[0][:-3])
    with open(cmd[2], 'rb') as f:
        h.update(f.read())
    return f'{h.hexdigest()} *{cmd[2]}\n'.encode()


_STUB_SUBPROCESS = types.SimpleNamespace(check_output=_digest_program, CalledProcessError=_REAL_SUBPROCESS.CalledProcessError)

STATE = {'world': None, 'twice': False}


def run_hook(alg, pkg, frame):
    '''the body of every generated Algorithm.run(ds, ps)'''
    w = STATE['world']
    ds = frame['ds']
    tag = f'{pkg}.{alg.name()}'
    t = ds._tn()
    ins = {(b, v) for b, v in w.prog['ins'][tag]}
    loaded = {}
    for ref in alg.previous():
        src = f'{dawgie.util.task_name(ref.factory)}.{ref.impl.name()}'
        for sv in ref.impl.state_vectors():
            for vn in sv.keys():
                loaded[(src, f'{sv.name()}.{vn}')] = sv[vn].content
    for sv in alg.state_vectors():
        for vn in list(sv.keys()):
            key = f'{sv.name()}.{vn}'
            if not ins:
                content = [tag, key, t, w.src[(tag, t, key)]]
            else:
                content = [tag, key, t, [(loaded.get(p) if loaded.get(p) is not None else []) for p in INORDER if p in ins]]
            sv[vn] = type(sv[vn])(content)
    ds.update()
    if STATE.get('twice') and zlib.crc32(tag.encode()) % 2 == 0:
        # an algorithm may save more than once in a run (a checkpoint, then the final save of the same content)
        ds.update()


engine.HOOK = run_hook


class Context(dawgie.pl.worker.Context):
    def abort(self):
        return False  # environment: the pipeline says "proceed"


class E2EWorld(World):
    def __init__(self, desc, targets, dbdir):
        # half of the histories run engines whose bots are dawgie.base objects (the current API), half the deprecated subclasses
        desc = dict(desc, cache_refs=True, **({'style': 'base'} if getattr(self, 'new_style', False) else {}))
        for d in ('db', 'dbs', 'stg'):
            shutil.rmtree(os.path.join(dbdir, d), True)
            os.makedirs(os.path.join(dbdir, d))
        dawgie.context.db_path = os.path.join(dbdir, 'db')
        dawgie.context.data_dbs = os.path.join(dbdir, 'dbs')
        dawgie.context.data_stg = os.path.join(dbdir, 'stg')
        dawgie.context.db_lock = False
        bridge.install()
        DBI().close()
        DBI().open()
        super().__init__(desc, targets)
        STATE['world'] = self
        STATE['twice'] = bool(getattr(self, 'save_twice', False))
        self.prog = sched_h.prog_view(desc)
        self.algs = [a for a in ORDER if a in self.prog['kind']]
        self.src = {(a, t, v): 0 for a in self.algs if not self.prog['ins'][a] for t in targets for v in self.prog['vals'][a]}
        self.run0 = 1
        # the store starts as a completed from-scratch run: execute everything once, in dependency order
        for a in self.algs:
            for t in targets:
                self.execute(a, t, self.run0, {})

    def execute(self, alg, t, runid, timing):
        pkg = alg.split('.')[0]
        factory = getattr(importlib.import_module(f'vae.{pkg}'), 'task')
        ctxt = Context(('farm', 1), dawgie.context.git_rev)
        return ctxt.run(factory, 0, alg, runid, t, timing)

    def read_back(self, alg, t, key):
        pkg, name = alg.split('.')
        mod = importlib.import_module(f'vae.{pkg}.bot')
        inst = getattr(mod, 'Alg_' + name)()
        bot = getattr(importlib.import_module(f'vae.{pkg}'), 'task')(pkg, 0, -1, t)
        try:
            dawgie.db.connect(inst, bot, t).load(err=False)
        except Exception:  # pylint: disable=broad-except
            return []
        sv, vn = key.split('.')
        c = inst.sv_as_dict()[sv][vn].content
        return c if c is not None else []

    def ev_bump(self, a, t, N):
        for v in N:
            self.src[(a, t, v)] += 1
        self.ev_run([a], [t])

    def ev_exec(self, a, t):
        cands = [u for u in self.inflight if u['alg'] == a and u['t'] == t and not u['stale']]
        if not cands:
            return False
        u = cands[0]
        self.inflight.remove(u)
        tim = dict(u['timing']) if u.get('timing') else {}
        nv = self.execute(a, t, u['run'], tim)
        if getattr(self, 'dirty', None) is not None:
            self.dirty.add((a, t))
        self.obs['new'] = sorted({'.'.join(n.split('.')[-2:]) for n, isnew in nv if isnew and not n.split('.')[-1].startswith('task_') and '__metric__' not in n})
        if u['run'] > self.stored_max:
            self.stored_max = u['run']
        self.obs['reply'] = [{'alg': a, 't': t, 'run': u['run'], 'msgid': u['msgid'], 'stale': False, 'out': 'success'}]
        wid = self.new_worker(dawgie.context.git_rev)
        self.feed(wid, message.make(typ=message.Type.response, inc=t, jid=a, rid=u['run'], suc=True, tim=tim, val=nv))
        self.ev_lost(wid)
        self.settle()
        return True

    def snapshot(self):
        st = super().snapshot()
        full = {}
        if not hasattr(self, 'cache'):
            self.cache = {}
            self.dirty = None  # None: read everything
        for a in self.algs:
            for t in list(self.targets) + [ALL]:
                for v in ('s.v', 's.w'):
                    k = f'{a}|{t}|{v}'
                    if t == ALL or v not in self.prog['vals'][a]:
                        full[k] = []
                        continue
                    # the store is re-read from the database only for units executed since the last snapshot
                    if self.dirty is None or (a, t) in self.dirty or k not in self.cache:
                        self.cache[k] = self.read_back(a, t, v)
                    full[k] = self.cache[k]
        self.dirty = set()
        st['stored'] = full
        st['src'] = {f'{a}|{t}|{v}': r for (a, t, v), r in self.src.items()}
        return st


def obs0():
    o = new_obs()
    o['new'] = []
    return o


def run_job(job, dbdir):
    dawgie.db.util.subprocess = _REAL_SUBPROCESS if job.get('real_digest') else _STUB_SUBPROCESS
    E2EWorld.save_twice = int(job['id']) % 2 == 1  # every other history: some algorithms save twice per run
    E2EWorld.new_style = (int(job['id']) // 2) % 2 == 1
    w = E2EWorld(job['desc'], job['targets'], dbdir)
    steps = []
    try:
        w.obs = obs0()
        steps.append({'ev': 'Init', 'args': {'x': 0}, 'st': w.snapshot(), 'obs': obs0()})
        events = list(job['events'])
        i = 0
        skipped = 0
        while True:
            if i >= len(events):
                before = json.dumps({k: v for k, v in w.snapshot().items() if k != 'stored'}, sort_keys=True, default=str)
                w.obs = obs0()
                w.ev_tick()
                st = w.snapshot()
                steps.append({'ev': 'Tick', 'args': {'x': 0}, 'st': st, 'obs': w.obs})
                if json.dumps({k: v for k, v in st.items() if k != 'stored'}, sort_keys=True, default=str) != before and len(steps) < 200:
                    continue
                live = [u for u in w.inflight if not u['stale']]
                if live and len(steps) < 200:
                    events.append({'ev': 'ExecReply', 'alg': live[0]['alg'], 't': live[0]['t']})
                else:
                    break
            e = events[i]
            i += 1
            w.obs = obs0()
            ok = True
            if e['ev'] == 'Bump':
                w.ev_bump(e['alg'], e['t'], sorted(e['N']))
            elif e['ev'] == 'Tick':
                w.ev_tick()
            elif e['ev'] == 'ExecReply':
                ok = w.ev_exec(e['alg'], e['t'])
            else:
                raise ValueError(e['ev'])
            if not ok:
                skipped += 1
                continue
            args = {k: (sorted(v) if isinstance(v, list) else v) for k, v in e.items() if k != 'ev'} or {'x': 0}
            steps.append({'ev': e['ev'], 'args': args, 'st': w.snapshot(), 'obs': w.obs})
        steps.append({'ev': 'Quiesce', 'args': {'x': 0}, 'st': w.snapshot(), 'obs': obs0()})
    finally:
        w.close()
        DBI().close()
    return {'tid': job['id'], 'prog': w.prog, 'targets': job['targets'], 'steps': steps, 'final': {'skipped': skipped}}


def main():
    with open(sys.argv[1], 'rt', encoding='utf-8') as f:
        jobs = json.load(f)['jobs']
    import logging

    logging.disable(logging.CRITICAL)
    dbdir = os.path.join(sched_h.WORK, 'e2e')
    os.makedirs(dbdir, exist_ok=True)
    with open(sys.argv[2], 'wt', encoding='utf-8') as out:
        for job in jobs:
            out.write(json.dumps(run_job(job, dbdir)) + '\n')


if __name__ == '__main__':
    main()
