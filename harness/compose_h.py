'''Composed harness (spec/System.tla): the REAL life-cycle FSM with its gated
poller threads, the real submit steps and reset command (as in life_h) running
ON TOP OF the real scheduler / farm / dag with real Hand connections and ground
truth from the worker transports (as in sched_h).  The pollers read the real
farm._busy / schedule.view_doing() / schedule.que; farm.dispatch() asks the real
FSM whether the pipeline is active and fires the real archiving_trigger.

usage: python -m harness.compose_h <jobs.json> <out.ndjson>
'''

import json
import sys

from harness import life_h  # noqa: F401  (boots, installs the thread / time / dot stubs)
from harness import sched_h
from harness.life_h import KS, PVAL, Request
from harness.sched_h import farm, new_obs, schedule
from vlib import engine

import twisted.python.failure

import dawgie.context
import dawgie.fe.api
import dawgie.fe.api.submit
import dawgie.fe.submit
import dawgie.pl.state as state

DESC = engine.simple([('a', 'task', []), ('b', 'task', ['a'])])
T = 'T1'


class FsmView:
    '''what the scheduler harness needs to know about the life cycle, read from the REAL FSM'''

    def __init__(self, fsm):
        self.fsm = fsm

    @property
    def active(self):
        return bool(self.fsm.is_pipeline_active())


class System:
    def __init__(self):
        self.lw = life_h.World()
        # bring the real FSM to rest in `running` (boot, load, introspection) before the history starts
        self.lw.fsm.starting_trigger()
        self.lw.complete('pipeline')
        self.lw.complete('navel_gaze')
        assert self.lw.fsm.is_pipeline_active()
        self.sw = sched_h.World(DESC, [T])
        dawgie.context.fsm = self.lw.fsm
        self.sw.fsm = FsmView(self.lw.fsm)
        sys_ = self

        # (re)load: farm.clear() abandons what is in flight; _pipeline rebuilds the scheduler
        self._orig_clear = farm.clear

        def clear():
            for u in sys_.sw.inflight:
                u['stale'] = True
            return sys_._orig_clear()

        farm.clear = clear

        def _pipeline(_self, *_a, **_k):
            for u in sys_.sw.inflight:
                if u['stale']:
                    u['ancient'] = True
            sys_.sw.facs = engine.load(DESC)
            sys_.sw.build(set())

        state.FSM._pipeline = _pipeline
        self.lw.fire_extra = lambda: {
            'executing': any(not u['stale'] for u in sys_.sw.inflight),
            'pending': any(bool(n.get('todo')) for n in sys_.sw.nodes().values()) or bool(farm._cluster),
        }

    def close(self):
        farm.clear = self._orig_clear
        self.sw.close()
        self.lw.finish()

    def snapshot(self):
        s = self.sw.snapshot()
        l = self.lw.snapshot()
        nodes = self.sw.nodes()
        return {
            'todo': s['todo'],
            'doing': s['doing'],
            'handed': {k: sorted(n.get('handed') or []) for k, n in nodes.items()},
            'que': s['que'],
            'status': s['status'],
            'inflight': [dict(v, ancient=bool(u.get('ancient'))) for v, u in zip(s['inflight'], self.sw.inflight)],
            'archive': s['archive'],
            'park': [m['alg'] for m in s['cluster']],
            'free': len(farm._workers),
            'busy_view': bool(farm._busy),
            'st': l['st'],
            'tr': l['tr'],
            'prior': l['prior'],
            'bg': l['bg'],
            'prio': l['prio'],
            'wait': l['wait'],
            'slot': l['slot'],
            'sub': l['sub'],
            'active': l['active'],
        }


def obs0():
    o = new_obs()
    o.update(path=[], fires=[], rejected=False, refused=False, exc='')
    return o


def do_event(sy, e, o):
    lw, sw = sy.lw, sy.sw
    ev = e['ev']
    if ev == 'Run':
        sw.ev_run([e['x']], [T])
    elif ev == 'Tick':
        if e.get('sc'):
            # scarce: only the workers that registered on their own (WorkerArrive) are there
            sw.ev_tick(auto_workers=0)
        else:
            # plentiful: enough workers register just before the pass; those left without a task go away again
            sw.ev_tick()
            for wid, w in list(sw.workers.items()):
                if w['connected'] and not w['holds']:
                    sw.ev_lost(wid)
    elif ev == 'WorkerArrive':
        if len(farm._workers) >= 1:
            return False
        sw.ev_register()
    elif ev == 'Reply':
        return sw.ev_reply(e['x'], T, 'success' if e['ok'] else 'failure', ['s.v'] if (e['ok'] and e['new']) else [], False)
    elif ev == 'OldReply':
        return sw.ev_reply(e['x'], T, 'success', [], True)
    elif ev in ('CompleteLoad', 'CompleteNavel', 'CompleteReload', 'CompleteArchive'):
        return lw.complete({'CompleteLoad': 'pipeline', 'CompleteNavel': 'navel_gaze', 'CompleteReload': 'reload', 'CompleteArchive': 'archive'}[ev])
    elif ev == 'CmdReset':
        lw.src = 'reset'
        r = dawgie.fe.api.cmd_reset(['false'])
        o['refused'] = b'failure' in r.lower() if isinstance(r, bytes) else 'failure' in str(r).lower()
    elif ev == 'SubmitBegin':
        if lw.process is not None:
            return False
        impl = dawgie.fe.api.submit if sy.job_id % 2 else dawgie.fe.submit
        proc = impl.Process('changeset-x', lambda: None, Request(), PVAL[e['p']])
        r = proc.step_1(None)
        if isinstance(r, twisted.python.failure.Failure):
            o['refused'] = True
            proc.failure(r)
        else:
            lw.process = proc
    elif ev == 'SubmitEnd':
        if lw.process is None:
            return False
        lw.src = 'now'
        proc, lw.process = lw.process, None
        proc.step_3(None)
    elif ev == 'PollerObserve':
        p = lw.pollers.get(e['k'])
        if p is None or p.exited:
            return False
        p.step()
    elif ev == 'PollerDone':
        p = lw.pollers.get(e['k'])
        if p is None or not p.exited or p.delivered:
            return False
        lw.src = 'poller'
        p.delivered = True
        p.d.callback(None)
    else:
        raise ValueError(ev)
    return True


def step(sy, e, steps):
    lw, sw = sy.lw, sy.sw
    lw.path = [lw.fsm.state]
    lw.fires = []
    lw.rejected = False
    lw.src = 'none'
    sw.obs = obs0()
    o = sw.obs
    ok = True
    try:
        ok = do_event(sy, e, o)
    except Exception as ex:  # pylint: disable=broad-except
        o['exc'] = type(ex).__name__
    if ok is False:
        return False
    o['path'] = list(lw.path)
    o['fires'] = list(lw.fires)
    o['rejected'] = bool(lw.rejected or o['exc'] != '')
    args = {k: v for k, v in e.items() if k != 'ev'} or {'n': 0}
    steps.append({'ev': e['ev'], 'args': args, 'st': sy.snapshot(), 'obs': o})
    return True


def drain(sy, steps):
    '''everything answers, every background step completes, every poller runs to completion, dispatch until quiet'''
    lw, sw = sy.lw, sy.sw
    names = {'pipeline': 'CompleteLoad', 'navel_gaze': 'CompleteNavel', 'reload': 'CompleteReload', 'archive': 'CompleteArchive'}
    idle = 0
    for _ in range(80):
        e = None
        live = [u for u in sw.inflight if not u['stale']]
        stale = [u for u in sw.inflight if u['stale'] and not (u.get('ancient') and any(v['stale'] and not v.get('ancient') and v['alg'] == u['alg'] for v in sw.inflight))]
        if lw.pending:
            e = {'ev': names[lw.pending[0][0]]}
        elif lw.process is not None:
            e = {'ev': 'SubmitEnd'}
        elif stale:
            e = {'ev': 'OldReply', 'x': stale[0]['alg']}
        elif live:
            e = {'ev': 'Reply', 'x': live[0]['alg'], 'ok': True, 'new': False}
        else:
            for k in KS:
                p = lw.pollers.get(k)
                if p is not None and p.exited and not p.delivered:
                    e = {'ev': 'PollerDone', 'k': k}
                    break
            if e is None:
                for k in KS:
                    p = lw.pollers.get(k)
                    if p is not None and not p.exited and lw.slot(k) == 'armed':
                        before = json.dumps(sy.snapshot(), sort_keys=True)
                        step(sy, {'ev': 'PollerObserve', 'k': k}, steps)
                        if p.exited:
                            e = 'done'
                            break
            if e is None:
                before = json.dumps(sy.snapshot(), sort_keys=True)
                step(sy, {'ev': 'Tick', 'sc': False}, steps)
                if json.dumps(sy.snapshot(), sort_keys=True) == before:
                    idle += 1
                    if idle >= 2:
                        break
                continue
        if e != 'done':
            step(sy, e, steps)
        idle = 0
    o = obs0()
    o['path'] = [lw.fsm.state]
    steps.append({'ev': 'Quiesce', 'args': {'n': 0}, 'st': sy.snapshot(), 'obs': o})


def run_job(job):
    sy = System()
    sy.job_id = int(job['id'])
    steps = []
    skipped = 0
    try:
        o = obs0()
        steps.append({'ev': 'Init', 'args': {'n': 0}, 'st': sy.snapshot(), 'obs': o})
        for e in job['events']:
            if not step(sy, e, steps):
                skipped += 1
        if job.get('drain', True):
            drain(sy, steps)
    finally:
        sy.close()
    return {'tid': job['id'], 'steps': steps, 'final': {'skipped': skipped}}


def main():
    with open(sys.argv[1], 'rt', encoding='utf-8') as f:
        jobs = json.load(f)['jobs']
    import logging

    logging.disable(logging.CRITICAL)
    with open(sys.argv[2], 'wt', encoding='utf-8') as out:
        for job in jobs:
            out.write(json.dumps(run_job(job)) + '\n')


if __name__ == '__main__':
    main()
