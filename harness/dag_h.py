'''Dag harness (C09): runs the REAL dawgie.pl.dag.Construct on engines
materialised from TLC's programs and records what can be observed of the
derived graphs, one ndjson line per program (two steps: the factories in
package order and in reverse order).

A program (spec/Dag.tla) is projected to an engine descriptor (vlib/engine.py),
executed into in-memory modules, and handed to dag.Construct exactly as the
pipeline does (the factories dictionary of scan.for_factories).  Environment
stubs: virtual reactor and the svg writer (vlib.boot).  Python only projects:
tags, children, ancestry, parents, feedback, level per node OBJECT of the
algorithm tree, what Node.iter / Node.locate yield, the tags of the other three
trees and Construct.feedbacks.  TLC judges (spec/Dag_Trace.tla).

usage: python -m harness.dag_h <jobs.json> <out.ndjson>
 jobs.json = {"jobs": [ {"id": n, "prog": <program as exported by TLC>} ]}
 environment: VERIF_C09_MUTANT=<name> applies an in-memory mutant of the real
 code (binding self-test only; nothing is written to /repo)
'''

import json
import logging
import os
import signal
import sys
import warnings

from vlib import boot, engine

REACTOR, WORK = boot.boot()

import dawgie  # noqa: E402
import dawgie.pl.dag as dag  # noqa: E402
import dawgie.util  # noqa: E402
import dawgie.util.refs  # noqa: E402


def prog_to_desc(prog):
    '''projection of a program of Dag.tla to an engine descriptor'''
    pkgs = {}
    for tag in sorted(prog['kind']):
        pkg, name = prog['pkg'][tag], prog['nm'][tag]
        assert tag == pkg + '.' + name, tag
        svs = {}
        for s, v in prog['vals'][tag]:
            svs.setdefault(s, []).append(v)

        def ref(r):
            rp, ra = r['src'].split('.')
            d = {'pkg': rp, 'alg': ra, 'gran': r['gran']}
            if r['gran'] in ('sv', 'val'):
                d['sv'] = r['sv']
            if r['gran'] == 'val':
                d['val'] = r['val']
            return d

        pkgs.setdefault(pkg, []).append(
            {
                'name': name,
                'kind': prog['kind'][tag],
                'ver': [1, 0, 0],
                'svs': [{'name': s, 'ver': [1, 0, 0], 'vals': [{'name': v, 'ver': [1, 0, 0]} for v in vs]} for s, vs in svs.items()],
                'refs': [ref(r) for r in prog['refs'][tag]],
                'feedback': [ref(r) for r in prog['fb'][tag]],
            }
        )
    return {'base': 'vae', 'pkgs': [{'name': p, 'algs': algs} for p, algs in pkgs.items()]}


def objects(roots):
    '''every node OBJECT reachable over children from the roots (by identity, no tag filter)'''
    seen = {}
    order = []
    todo = list(roots)
    while todo:
        n = todo.pop(0)
        if id(n) in seen:
            continue
        seen[id(n)] = n
        order.append(n)
        todo.extend(list(n))
    return order


def iter_tags(roots):
    '''tags met by Node.iter from every root (what schedule.tasks() does)'''
    tags = set()
    try:
        for r in roots:
            for e in r.iter():
                tags.add(e.tag)
    except RecursionError:  # Node.iter does not come back (a cyclic tree): nothing is reached
        return []
    return sorted(tags)


def tags_of(x):
    return sorted(n.tag for n in x) if x else []


def observe(c, prog):
    at = list(c.at)
    objs = objects(at)
    nodes = []
    for n in objs:
        lvl = n.get('level')
        anc = n.get('ancestry')
        nodes.append(
            {
                'tag': n.tag,
                'children': [ch.tag for ch in n],
                'ancestry': sorted(anc) if anc else [],
                'parents': tags_of(n.get('parents')),
                'feedback': tags_of(n.get('feedback')),
                'level': lvl if isinstance(lvl, int) else -1,
            }
        )
    located = []
    for tag in sorted({n.tag for n in objs} | set(prog['kind'])):
        found = {}
        try:
            for r in at:
                for n in r.locate(tag):
                    found[id(n)] = n
        except RecursionError:  # Node.locate does not come back: the scheduler cannot find the node
            found = {}
        located.append({'tag': tag, 'n': len(found)})
    fed = [{'v': str(k), 'to': str(v), 'alg': '.'.join(str(v).split('.')[:2])} for k, v in sorted(c.feedbacks.items())]
    return {
        'nodes': nodes,
        'iter': iter_tags(at),
        'located': located,
        # the coarser trees may contain cycles (two packages feeding each other): walk by identity
        'svt': sorted({n.tag for n in objects(list(c.svt))}),
        'tt': sorted({n.tag for n in objects(list(c.tt))}),
        'vt': sorted({n.tag for n in objects(list(c.vt))}),
        'fed': fed,
    }


class Timeout(BaseException):
    pass


def _alarm(_signum, _frame):
    raise Timeout()


LIMIT = [float(os.environ.get('VERIF_C09_LIMIT', '30'))]  # seconds for one Construct (it takes milliseconds); shorter after the first expiry

BLANK = {'ok': False, 'err': '', 'nodes': [], 'iter': [], 'located': [], 'svt': [], 'tt': [], 'vt': [], 'fed': []}


def construct(facs, prog):
    obs = dict(BLANK)
    c = None
    signal.setitimer(signal.ITIMER_REAL, LIMIT[0])
    try:
        c = dag.Construct(facs)
    except Timeout:  # a Construct that does not return is an observation too
        obs['err'] = f'Timeout: no return within {LIMIT[0]:.0f} s'
        LIMIT[0] = min(LIMIT[0], 5.0)
    except RecursionError:
        obs['err'] = 'RecursionError'
    except Exception as ex:  # noqa: BLE001 -- a Construct that raises is an observation (clause C09.Constructs)
        obs['err'] = f'{type(ex).__name__}: {ex}'[:200]
    finally:
        signal.setitimer(signal.ITIMER_REAL, 0)
    if c is not None:
        obs.update(observe(c, prog), ok=True)
    return obs


CHAIN = ['m', 'mo', 'mod', 'mode', 'model', 'models', 'modelsx']


def renaming(job):
    '''algorithm names are free text: every third program is built with names that are string prefixes of one
    another (the dependent has the longer / the shorter name), and the observation is translated back'''
    v = int(job['id']) % 3
    letters = 'abcdefg'
    if v == 0:
        return {}
    names = CHAIN if v == 1 else list(reversed(CHAIN))
    return dict(zip(letters, names))


def deep_map(x, m):
    if not m:
        return x
    if isinstance(x, dict):
        return {deep_map(k, m): deep_map(v, m) for k, v in x.items()}
    if isinstance(x, (list, tuple)):
        return [deep_map(v, m) for v in x]
    if isinstance(x, str):
        if x in m:
            return m[x]
        if '.' in x:
            parts = x.split('.')
            if parts[1] in m:
                parts[1] = m[parts[1]]
                return '.'.join(parts)
    return x


def run_job(job):
    # two Constructs per program: the factories in package order and in reverse package order
    # (another insertion order of _flat, another order of the child lists)
    fwd = renaming(job)
    inv = {v: k for k, v in fwd.items()}
    prog = deep_map(job['prog'], fwd)
    desc = prog_to_desc(prog)
    facs = engine.load(desc)
    steps = [{'ev': 'construct', 'obs': deep_map(construct(facs, prog), inv)}]
    rev = {k: list(reversed(v)) for k, v in facs.items()}
    steps.append({'ev': 'construct-reversed', 'obs': deep_map(construct(rev, prog), inv)})
    return {'tid': job['id'], 'prog': job['prog'], 'steps': steps}


# --------------------------------------------------------------------------
# in-memory mutants of the real code for the self-test of the binding


def apply_mutant(name):
    if not name:
        return
    C = dag.Construct
    if name == 'parents_known_first':  # the `known` cut applied before the parent is recorded
        def _parents(self, nodes, known):
            for node in nodes:
                known.add(node.tag)
                children = [ch for ch in node if self.trim(ch.tag, 2) != self.trim(node.tag, 2)]
                children = [ch for ch in children if ch.tag not in known]
                for child in children:
                    child.get('parents').add(node)
                self._parents(children, known)

        C._parents = _parents
    elif name == 'ancestry_two_levels':  # parents and grand parents only
        def _ancestry(self):
            for _name, dct in self._flat.items():
                heritage = dct.get('parents').copy()
                for p in list(heritage):
                    heritage.update(self._flat[p.tag].get('parents'))
                dct.get('ancestry').update([h.tag for h in heritage])

        C._ancestry = _ancestry
    elif name == 'feedback_is_edge':  # a feedback reference also becomes a child link
        orig = C._feedback

        def _feedback(self):
            orig(self)
            for node in self._flat.values():
                for f in node.get('feedback'):
                    f.add(node)

        C._feedback = _feedback
    elif name == 'feedbacks_swapped':  # consumer -> value instead of value -> consumer
        orig = C._feedback

        def _feedback(self):
            orig(self)
            self._feedbacks = {v: k for k, v in self._feedbacks.items()}

        C._feedback = _feedback
    elif name == 'svref_dropped':  # as_vref forgets state-vector references
        def as_vref(references):
            for reference in references:
                if isinstance(reference, dawgie.V_REF):
                    yield reference
                if isinstance(reference, dawgie.ALG_REF):
                    for svref in dawgie.util.refs.algref2svref(reference):
                        yield from dawgie.util.refs.svref2vref(svref)

        dawgie.util.refs.as_vref = as_vref
        dawgie.util.as_vref = as_vref
    elif name == 'trim_first_visitor':  # only the first value node visiting a short node contributes its children
        def trim(self, known, length):
            short_node = known[C.trim(self.tag, length)]
            first = not short_node.get('visitors')
            saved = list(self)
            if not first:
                for ch in saved:
                    self.remove(ch)
            try:
                return ORIG_TRIM(self, known, length)
            finally:
                if not first:
                    for ch in saved:
                        self.append(ch)

        ORIG_TRIM = dag.Node.trim
        dag.Node.trim = trim
    elif name == 'roots_first_value':  # only the first value of an input-less algorithm becomes a root
        orig = C._trim_trees

        def _trim_trees(self, length):
            keep = {}
            for r in sorted(self._roots, key=lambda n: n.tag):
                keep.setdefault(C.trim(r.tag, 2), r)
            saved = self._roots
            self._roots = set(keep.values())
            try:
                return orig(self, length)
            finally:
                self._roots = saved

        C._trim_trees = _trim_trees
    else:
        raise SystemExit('unknown mutant ' + name)


def main(argv):
    inp, outp = argv[1], argv[2]
    with open(inp) as f:
        jobs = json.load(f)['jobs']
    logging.disable(logging.CRITICAL)
    warnings.simplefilter('ignore')
    apply_mutant(os.environ.get('VERIF_C09_MUTANT', ''))
    signal.signal(signal.SIGALRM, _alarm)
    with open(outp, 'wt') as out:
        for job in jobs:
            out.write(json.dumps(run_job(job), sort_keys=True) + '\n')
    return 0


if __name__ == '__main__':
    sys.exit(main(sys.argv))
