'''Execution-history harness (C18): drives the REAL dawgie.pl.logger.chronicle
append / find and the REAL front-end callers dawgie.fe.api.schedule.failed /
succeeded on real files in a scratch directory, with the wall clock injected,
and records one trace per job (append history + queries).

Nothing here decides anything: entries read back from the journal files and
entries returned by the queries are projected to the entry ids of the table
printed by TLC (0 = not byte-for-byte an entry of the table); TLC evaluates the
clauses (spec/Chronicle_Trace.tla).

usage: python -m harness.chronicle_h <jobs.json> <out.ndjson>
 jobs.json = {"jobs": [ {"id": .., "table": {cal, tod, at, run, st, zone}, "appends": [entry id ..],
                         "strform": bool,
                         "queries": [[after, before, limit, ok(0/1), now, zone, kind, e], ..],
                         "events": [["a", entry id] | ["q", after, before, limit, ok, now, zone, kind, e] | ["r"], ..]} ]}
 One job = ONE PROCESS LIFE: the module state of the real code lives on from event to event.  With
 "events" the life is that list (appends, queries and restarts "r" in any order) followed by
 "queries"; without, it is "appends" followed by "queries".  A restart reloads the chronicle module
 (module level state gone, as in a new process; clock and mutant re-installed); files are read back.
 kind 0 = chronicle.find, 1 = fe.api.schedule.failed|succeeded, 2 = ANOTHER READER of the history:
 the real dawgie.fe.api.df_model_statistics([task of entry e]) with dawgie.context.boot_time =
 `after` (the scheduler's queues are empty: the node is neither doing nor to do); the files are
 read back after it.  After EVERY find the harness scribbles on the entries it was handed (status,
 target, timing, an extra key): they are the caller's own copies, later answers must not change.
 instants are ordinals (day-1)*len(tod) + (tod-1); -1 = argument not given.  zone = index
 (from 1) into table.zone (UTC offsets in minutes): the bounds are handed over as tz-aware
 datetimes / ISO strings written with that offset - the same instants.

 VERIF_MUTANT=<name>   in-memory mutant of the real functions (binding demonstration,
                       never written to /repo): append_overwrite append_twice find_le
                       find_status find_unsorted find_localdate find_notsuccess api_swap
 VERIF_CORRUPT=<name>  corrupt one recorded field: res_drop files_drop
'''

import datetime as _dt
import importlib
import inspect
import json
import os
import shutil
import sys
import textwrap

from vlib import boot

REACTOR, WORK = boot.boot()

import dawgie.context  # noqa: E402
import dawgie.fe.api as feapi  # noqa: E402
import dawgie.fe.api.schedule as api  # noqa: E402
import dawgie.pl.logger.chronicle as chronicle  # noqa: E402

UTC = _dt.timezone.utc
assert api.dawgie.pl.logger.chronicle is chronicle


class _Meta(type(_dt.datetime)):
    def __instancecheck__(cls, obj):  # `isinstance(value, datetime)` inside append keeps its meaning
        return isinstance(obj, _dt.datetime)


class Clock(_dt.datetime, metaclass=_Meta):
    '''stands for the name `datetime` inside the chronicle module: the same class with now() injected'''

    current = None

    @classmethod
    def now(cls, tz=None):
        assert Clock.current is not None, 'wall clock read without an injected value'
        Clock.reads += 1
        return Clock.current if tz is None else Clock.current.astimezone(tz)

    reads = 0


chronicle.datetime = Clock


# ---------------------------------------------------------------- mutants
def _mutate(fn_name, *pairs):
    src = textwrap.dedent(inspect.getsource(getattr(chronicle, fn_name)))
    for old, new in zip(pairs[0::2], pairs[1::2]):
        assert old in src, (fn_name, old)
        src = src.replace(old, new)
    ns = chronicle.__dict__
    exec(compile(src, f'<mutant {fn_name}>', 'exec'), ns)  # pylint: disable=exec-used


def install_mutant(name):
    if name == 'append_overwrite':
        _mutate('append', 'if os.path.isfile(journal):', 'if False:')
    elif name == 'append_twice':
        _mutate('append', 'entries.append(entry)', 'entries.append(entry); entries.append(entry)')
    elif name == 'find_le':
        _mutate('_load', 'after < completed < before', 'after < completed <= before')
    elif name == 'find_status':
        _mutate('_load', " and entry['status'] == status", '')
    elif name == 'find_unsorted':
        _mutate('_load', 'reverse=True', 'reverse=False')
    elif name == 'find_localdate':  # walk by the local date of the bounds (directories are UTC dates)
        _mutate('find', 'before.astimezone(UTC)', 'before', 'after.astimezone(UTC).date()', 'after.date()')
    elif name == 'find_notsuccess':  # failed = everything that is not a success (invalid runs included)
        _mutate('_load', "entry['status'] == status", "(entry['status'] == 'success') == succeeded")
    elif name == 'api_swap':
        orig_f, orig_s = api.failed, api.succeeded
        api.failed, api.succeeded = orig_s, orig_f
    else:
        raise SystemExit(f'unknown mutant {name}')


MUTANT = os.environ.get('VERIF_MUTANT', '')


def restart():
    '''a new process as far as the history module is concerned: its module level state is gone'''
    importlib.reload(chronicle)
    chronicle.datetime = Clock
    assert api.dawgie.pl.logger.chronicle is chronicle
    if MUTANT and MUTANT != 'api_swap':
        install_mutant(MUTANT)


# ------------------------------------------------------------------ world
class World:
    def __init__(self, table):
        self.table = table
        self.cal = [tuple(x) for x in table['cal']]
        self.tod = [tuple(x) for x in table['tod']]
        self.nt = len(self.tod)
        # the table must be a contiguous run of real days: real date arithmetic is the ground truth
        for i in range(1, len(self.cal)):
            assert _dt.date(*self.cal[i]) - _dt.date(*self.cal[i - 1]) == _dt.timedelta(days=1), self.cal[i]
        self.day_of = {c: i + 1 for i, c in enumerate(self.cal)}
        self.ident = {}
        for e in range(1, len(table['at']) + 1):
            self.ident[json.dumps(self.stored(e), sort_keys=True)] = e
        assert len(self.ident) == len(table['at'])

    def inst(self, i, zone=1):
        y, m, d = self.cal[i // self.nt]
        hh, mm, ss = self.tod[i % self.nt]
        t = _dt.datetime(y, m, d, hh, mm, ss, tzinfo=UTC)
        off = self.table['zone'][zone - 1]
        if off:
            z = t.astimezone(_dt.timezone(_dt.timedelta(minutes=off)))
            assert z == t and z.utcoffset() == _dt.timedelta(minutes=off)
            return z
        return t

    def timing(self, e):
        done = self.inst(self.table['at'][e - 1])
        return {'scheduled': done - _dt.timedelta(hours=2, seconds=e), 'started': done - _dt.timedelta(seconds=90 + e), 'completed': done}

    def entry(self, e, strform):
        '''what the caller hands to append: datetimes (the tests) or str() of them (schedule.complete)'''
        t = self.timing(e)
        return {
            'changeset': f'{e:02d}' * 20,
            'runid': self.table['run'][e - 1],
            'status': self.table['st'][e - 1],
            'target': f'T{e:02d}',
            'task': f'pkg{e:02d}.alg',
            'timing': {k: str(v) for k, v in t.items()} if strform else t,
            'version': f'1.0.{e}',
        }

    def stored(self, e):
        d = self.entry(e, True)
        return d

    def project(self, entries):
        out = []
        for x in entries:
            try:
                out.append(self.ident.get(json.dumps(x, sort_keys=True), 0))
            except (TypeError, ValueError):
                out.append(0)
        return out

    def readback(self, base):
        files = []
        odd = 0
        for root, _dirs, names in os.walk(base):
            for fn in sorted(names):
                rel = os.path.relpath(os.path.join(root, fn), base).split(os.sep)
                day, run = 0, 0
                try:
                    day = self.day_of[(int(rel[0]), int(rel[1]), int(rel[2]))]
                    assert len(rel) == 4 and rel[3].endswith('.json')
                    run = int(rel[3][:-5])
                except (AssertionError, IndexError, KeyError, ValueError):
                    odd += 1
                    day, run = -odd, 0
                try:
                    with open(os.path.join(root, fn), 'rt', encoding='utf-8') as f:
                        ents = self.project(json.load(f))
                except (OSError, ValueError, TypeError):
                    ents = [0]
                files.append({'day': day, 'run': run, 'ents': ents})
        files.sort(key=lambda r: (r['day'], r['run']))
        return files


NOARGS = {'e': 0, 'after': -1, 'before': -1, 'limit': -1, 'ok': True, 'now': -1, 'zone': 1}


def run_job(job, corrupt):
    w = World(job['table'])
    base = os.path.join(WORK, f'dbs{job["id"]}')
    shutil.rmtree(base, True)
    os.makedirs(base)
    dawgie.context.data_dbs = base
    chron = os.path.join(base, 'chronicles')
    Clock.current = None
    steps = [{'ev': 'init', 'args': dict(NOARGS), 'st': {'files': w.readback(chron)}, 'obs': {'res': [], 'err': ''}}]
    prog = [list(x) for x in job['events']] if job.get('events') else [['a', e] for e in job['appends']]
    prog += [['q'] + list(x) for x in job['queries']]
    last_append = max([k for k, x in enumerate(prog) if x[0] == 'a'], default=-1)
    nres = 0
    for k, item in enumerate(prog):
        if item[0] == 'a':
            e = item[1]
            err = ''
            # the clock of the pipeline at completion time (append itself must not need it)
            Clock.current = w.inst(w.table['at'][e - 1])
            try:
                chronicle.append(w.entry(e, job.get('strform', False)))
            except Exception as ex:  # pylint: disable=broad-except
                err = repr(ex)[:200]
            files = w.readback(chron)
            if corrupt == 'files_drop' and k == last_append and files and files[0]['ents']:
                files[0]['ents'] = files[0]['ents'][1:]
            steps.append({'ev': 'append', 'args': dict(NOARGS, e=e), 'st': {'files': files}, 'obs': {'res': [], 'err': err}})
            continue
        if item[0] == 'r':
            err = ''
            try:
                restart()
            except Exception as ex:  # pylint: disable=broad-except
                err = repr(ex)[:200]
            steps.append({'ev': 'reopen', 'args': dict(NOARGS), 'st': {'files': w.readback(chron)}, 'obs': {'res': [], 'err': err}})
            continue
        after, before, limit, ok, now, zone, qkind, qe = item[1:]
        via_api = qkind == 1
        Clock.current = w.inst(now)
        if qkind == 2:
            err = ''
            dawgie.context.boot_time = w.inst(after, zone)
            try:
                body = json.loads(feapi.df_model_statistics([w.entry(qe, True)['task']]))
                if body['status'] != 'success':
                    err = 'api status ' + str(body['status'])
            except Exception as ex:  # pylint: disable=broad-except
                err = repr(ex)[:200]
            steps.append(
                {
                    'ev': 'stats',
                    'args': {'e': qe, 'after': after, 'before': -1, 'limit': -1, 'ok': True, 'now': now, 'zone': zone},
                    'st': {'files': w.readback(chron)},
                    'obs': {'res': [], 'err': err},
                }
            )
            continue
        reads = Clock.reads
        err, res = '', []
        try:
            if via_api:
                fn = api.succeeded if ok else api.failed
                body = fn(
                    after=[w.inst(after, zone).isoformat()] if after >= 0 else None,
                    before=[w.inst(before, zone).isoformat()] if before >= 0 else None,
                    limit=[str(limit)] if limit >= 0 else None,
                )
                body = json.loads(body)
                if body['status'] != 'success':
                    err = 'api status ' + str(body['status'])
                else:
                    res = w.project(body['content'])
            else:
                found = chronicle.find(
                    after=w.inst(after, zone) if after >= 0 else None,
                    before=w.inst(before, zone) if before >= 0 else None,
                    limit=limit if limit >= 0 else None,
                    succeeded=bool(ok),
                )
                res = w.project(found)
                for x in found:  # the caller does what it likes with ITS copies
                    if isinstance(x, dict):
                        x['status'] = 'seen'
                        x['target'] = 'edited by the caller'
                        x['note'] = len(steps)
                        if isinstance(x.get('timing'), dict):
                            x['timing']['completed'] = '1999-12-31 23:59:59+00:00'
        except Exception as ex:  # pylint: disable=broad-except
            err = repr(ex)[:200]
        if before < 0 and not err:
            assert Clock.reads > reads, 'find did not read the injected clock'
        if res:
            nres += 1
            if corrupt == 'res_drop' and nres == 1:
                res = res[1:]
        steps.append(
            {
                'ev': 'api' if via_api else 'find',
                'args': {'e': 0, 'after': after, 'before': before, 'limit': limit, 'ok': bool(ok), 'now': now, 'zone': zone},
                'st': {'files': []},
                'obs': {'res': res, 'err': err},
            }
        )
    shutil.rmtree(base, True)
    return {'tid': job['id'], 'table': job['table'], 'steps': steps}


def main():
    with open(sys.argv[1], 'rt', encoding='utf-8') as f:
        jobs = json.load(f)['jobs']
    if MUTANT:
        install_mutant(MUTANT)
    corrupt = os.environ.get('VERIF_CORRUPT', '')
    with open(sys.argv[2], 'wt', encoding='utf-8') as out:
        for job in jobs:
            out.write(json.dumps(run_job(job, corrupt), separators=(',', ':')) + '\n')


if __name__ == '__main__':
    main()
