'''C15 harness: the REAL dawgie.Version operators and the REAL
pl.version.current / pl.schedule.build (with _diff, organize) / db.shelve
versions() on inputs chosen by TLC (spec/Version_Gen.tla).

usage: python -m harness.version_h <jobs.json> <out.ndjson>
 jobs.json = {"jobs": [job, ...]}; one ndjson line (= one trace) per job

 part "a" job  {"id", "part": "a", "ca", "cb", "a": [d,i,b], "bs": [[d,i,b], ...]}
   one step per b: the six comparison operators and newer() are evaluated on an
   object of class `ca` holding version a and an object of class `cb` holding b,
   in both directions.
 part "b" job  {"id", "part": "b", "eng": <engine chosen by TLC>, "elems": [path, ...],
                "decl": [[d,i,b], ...], "cases": [case, ...]}
   the engine is materialised with vlib.engine; one step per case = one (re)load:
     mode "direct"  the persisted version tables are built from the lists TLC chose
     mode "shelve"  the older engines of case["hist"] are really recorded
                    (pl.version.record -> db.shelve.update) into a fresh shelve
                    database opened with DBI().open() (no sockets), the targets are
                    really added, and db.versions() / db.targets() supply the tables
   then the real version.current() and schedule.build() run; schedule.que and the
   todo set of every DAG node are logged.

The harness decides nothing: it materialises, projects and logs.  The environment
variable VERIF_MUTANT selects an in-memory mutant of the real functions (used by
the self test of checks/version.py to demonstrate the binding; never written to
/repo).
'''

import json
import logging
import os
import shutil
import sys
import tempfile
import warnings

from vlib import boot, engine

REACTOR, WORK = boot.boot()

import dawgie  # noqa: E402
import dawgie.context  # noqa: E402
import dawgie.db  # noqa: E402
import dawgie.db.shelve  # noqa: E402
import dawgie.db.shelve.util  # noqa: E402
import dawgie.pl.schedule as schedule  # noqa: E402
import dawgie.pl.version  # noqa: E402
import dawgie.util  # noqa: E402
from dawgie.db.shelve.state import DBI  # noqa: E402

REAL_TARGETS = dawgie.db.targets
F = dawgie.Factories

# --------------------------------------------------------------------------
# part (a): objects of real dawgie.Version subclasses


class PlainV(dawgie.Version):
    def __init__(self, v):
        self._version_ = dawgie.VERSION(*v)


class GetVerV(dawgie.Version):
    '''the documented extension point: _get_ver/_set_ver overridden'''

    def __init__(self, v):
        self.__elsewhere = dawgie.VERSION(*v)

    def _get_ver(self):
        return self.__elsewhere

    def _set_ver(self, ver):
        self.__elsewhere = ver


class AlgV(dawgie.Algorithm):
    def __init__(self, v):
        self._version_ = dawgie.VERSION(*v)


class AnzV(dawgie.Analyzer):
    def __init__(self, v):
        self._version_ = dawgie.VERSION(*v)


class RegV(dawgie.Regression):
    def __init__(self, v):
        self._version_ = dawgie.VERSION(*v)


class ValV(dawgie.Value):
    def __init__(self, v):
        dawgie.Value.__init__(self)
        self._version_ = dawgie.VERSION(*v)

    def features(self):
        return []


class SvV(dawgie.StateVector):
    def __init__(self, v):
        dawgie.StateVector.__init__(self)
        self._version_ = dawgie.VERSION(*v)
        self['x'] = ValV((9, 9, 9))  # content must not influence the comparison

    def name(self):
        return 'sv'

    def view(self, caller, visitor):
        return


CLASSES = {
    'plain': PlainV,
    'getver': GetVerV,
    'alg': AlgV,
    'anz': AnzV,
    'reg': RegV,
    'val': ValV,
    'sv': SvV,
    'local': lambda v: dawgie.db.shelve.util.LocalVersion('.'.join(str(i) for i in v)),
}

OPS = ('eq', 'ne', 'lt', 'le', 'gt', 'ge', 'newer')


def ops(x, y, yv):
    '''the seven results of `x op y`; newer() takes the VERSION tuple of y'''
    try:
        res = {
            'eq': x == y,
            'ne': x != y,
            'lt': x < y,
            'le': x <= y,
            'gt': x > y,
            'ge': x >= y,
            'newer': x.newer(dawgie.VERSION(*yv)),
        }
    except Exception:  # pylint: disable=broad-except
        return dict({k: False for k in OPS}, ok=False)
    ok = all(isinstance(v, bool) for v in res.values())
    return dict({k: bool(v) for k, v in res.items()}, ok=ok)


def run_pairs(job):
    mk_a, mk_b = CLASSES[job['ca']], CLASSES[job['cb']]
    a = list(job['a'])
    steps = []
    for b in job['bs']:
        x, y = mk_a(a), mk_b(b)
        steps.append({'ev': 'Cmp', 'args': {'a': a, 'b': list(b)}, 'st': {'x': 0}, 'obs': {'r': ops(x, y, b), 'q': ops(y, x, a)}})
    return {'tid': job['id'], 'part': 'a', 'ca': job['ca'], 'cb': job['cb'], 'algs': [], 'steps': steps}


# --------------------------------------------------------------------------
# part (b)


def vstr(v):
    return '.'.join(str(i) for i in v)


def desc_of(eng, elems, vers):
    '''TLC's engine record -> vlib.engine descriptor, with the version of every element
    taken from vers (aligned with elems)'''
    ver = {tuple(p): list(v) for p, v in zip(elems, vers)}
    pkgs = {}
    algs = eng['algs']
    for j, a in enumerate(algs, start=1):
        refs = [{'pkg': algs[e[0] - 1]['pkg'], 'alg': algs[e[0] - 1]['name'], 'gran': 'alg'} for e in eng['edges'] if e[1] == j]
        base = (a['pkg'], a['name'])
        pkgs.setdefault(a['pkg'], []).append(
            {
                'name': a['name'],
                'kind': a['kind'],
                'ver': ver[base],
                'svs': [
                    {
                        'name': sv['name'],
                        # a state vector that declares no values is not a versioned element (nothing
                        # can persist its version): it keeps the version the engine record gives it
                        'ver': ver.get(base + (sv['name'],), list(sv['ver'])),
                        'vals': [{'name': v['name'], 'ver': ver[base + (sv['name'], v['name'])]} for v in sv['vals']],
                    }
                    for sv in a['svs']
                ],
                'refs': refs,
                'feedback': [],
            }
        )
    return {'base': 'vae', 'pkgs': [{'name': k, 'algs': v} for k, v in pkgs.items()]}


def all_factories(facs):
    # the order pl/state.py uses
    return facs[F.analysis] + facs[F.regress] + facs[F.task]


def bot_of(facs, eng, full):
    '''the factory-made bot holding algorithm `full` = "pkg.name"'''
    pkg, name = full.split('.')
    kind = [a['kind'] for a in eng['algs'] if a['pkg'] == pkg and a['name'] == name][0]
    for f in facs[F[kind]]:
        if dawgie.util.task_name(f) == pkg:
            return f(dawgie.util.task_name(f)), name
    raise KeyError(full)


GHOST = {1: ('t9.z', '1.1.1'), 2: ('t9.z.s', '1.2.1'), 3: ('t9.z.s.v', '1.2.2')}


class Loader:
    def __init__(self, job):
        self.job = job
        self.eng = job['eng']
        self.elems = [list(p) for p in job['elems']]
        self.names = ['.'.join(p) for p in self.elems]
        self.desc = desc_of(self.eng, self.elems, job['decl'])
        self.facs = None
        self.nstep = 0

    def work_in_progress(self):
        '''every other (re)load finds the farm at work: what the previous build queued has been released and is executing
        (the harness plays farm.dispatch: next_job_batch(), status running) when the next build() arrives'''
        self.nstep += 1
        wip = 0
        if self.nstep % 2 == 0 and getattr(schedule, 'ae', None) is not None:
            try:
                for j in schedule.next_job_batch():
                    j.set('status', schedule.State.running)
                    wip += 1
            except Exception:  # pylint: disable=broad-except
                pass
        return wip

    def load_current(self):
        self.facs = engine.load(self.desc)

    def previous_direct(self, case):
        tabs = {1: {}, 2: {}, 3: {}}
        for path, name, p in zip(self.elems, self.names, case['pers']):
            if p['present']:
                tabs[len(path) - 1][name] = [vstr(v) for v in p['vers']]
        if case['ghost']:
            for lvl, (k, v) in GHOST.items():
                tabs[lvl][k] = [v]
        tasks = {a['pkg']: True for a in self.eng['algs']}
        dawgie.db.targets = lambda fulllist=False, t=tuple(case['targets']): list(t)
        return (tasks, tabs[1], tabs[2], tabs[3])

    def previous_shelve(self, case):
        '''really record the older engines, then ask the database'''
        dawgie.db.targets = REAL_TARGETS
        dbdir = tempfile.mkdtemp(prefix='db', dir=WORK)
        dawgie.context.db_path = dbdir
        DBI().open()
        for h in case['hist']:
            old = engine.load(desc_of(self.eng, self.elems, h['vers']))
            for full in h['algs']:
                bot, only = bot_of(old, self.eng, full)
                dawgie.pl.version.record(bot, only=only)
        for t in case['targets']:
            dawgie.db.add(t)
        self.load_current()
        return dawgie.pl.version.persistent(), dbdir

    def step(self, case):
        dbdir = None
        err = ''
        latest = ({}, {}, {})
        previous = ({}, {}, {}, {})
        wip = self.work_in_progress()
        try:
            if case['mode'] == 'shelve':
                previous, dbdir = self.previous_shelve(case)
            else:
                if self.facs is None:
                    self.load_current()
                previous = self.previous_direct(case)
            latest = dawgie.pl.version.current(all_factories(self.facs))
            schedule.build(self.facs, latest, previous)
        except Exception as ex:  # pylint: disable=broad-except
            err = f'{type(ex).__name__}: {ex}'[:200] or 'error'
        st = snapshot(err)
        obs_els = []
        for path, name in zip(self.elems, self.names):
            lvl = len(path) - 1
            obs_els.append(
                {
                    'incur': name in latest[lvl - 1],
                    'cur': str(latest[lvl - 1].get(name, '')),
                    'present': name in previous[lvl],
                    'pers': [str(v) for v in previous[lvl].get(name, [])],
                }
            )
        known = set(self.names)
        extra = sum(1 for tab in latest for k in tab if k not in known)
        args = {
            'targets': list(case['targets']),
            'mode': case['mode'],
            'ghost': bool(case['ghost']),
            'els': [
                {'path': path, 'decl': list(d), 'present': bool(p['present']), 'vers': [list(v) for v in p['vers']]}
                for path, d, p in zip(self.elems, self.job['decl'], case['pers'])
            ],
        }
        if dbdir is not None:
            try:
                DBI().close()
            finally:
                shutil.rmtree(dbdir, True)
                self.facs = None
        return {'ev': 'Build', 'args': args, 'st': st, 'obs': {'extra': extra, 'els': obs_els, 'wip': wip}}


def snapshot(err):
    '''schedule.que and the todo set of every node object of the DAG, right after build()'''
    nodes = {}
    ae = getattr(schedule, 'ae', None)
    if ae is not None:
        for root in ae.at:
            for n in root.iter():
                nodes[id(n)] = n
    que = [j.tag for j in schedule.que]
    view = [{'tag': n.tag, 'todo': [str(t) for t in n.get('todo')]} for n in sorted(nodes.values(), key=lambda n: n.tag)]
    return {'err': err, 'que': que, 'nodes': view}


def run_build(job):
    ld = Loader(job)
    steps = [ld.step(case) for case in job['cases']]
    algs = [{'name': a['pkg'] + '.' + a['name'], 'kind': a['kind']} for a in job['eng']['algs']]
    return {'tid': job['id'], 'part': 'b', 'ca': '', 'cb': '', 'algs': algs, 'steps': steps}


# --------------------------------------------------------------------------
# in-memory mutants of the real functions (self test only)


def install_mutant(name):
    if name == 'ge_ignores_impl':  # Version.__ge__ without the implementation field

        def ge(self, other):
            if self.design() > other.design():
                return True
            if self.design() == other.design():
                return self.bugfix() >= other.bugfix()
            return False

        dawgie.Version.__ge__ = ge
    elif name == 'newer_or_equal':  # newer() answers True for the same version
        real = dawgie.Version.newer
        dawgie.Version.newer = lambda self, than: real(self, than) or (
            than.design == self.design() and than.impl == self.implementation() and than.bugfix == self.bugfix()
        )
    elif name == 'lt_is_le':
        dawgie.Version.__lt__ = lambda self, other: self.__le__(other)
    elif name == 'diff_substring':  # version found if it is a substring of a persisted one

        def diff(curr, prev):
            return [k for k in curr if k not in prev or not any(curr[k] in p for p in prev[k])]

        schedule._diff = diff
    elif name == 'diff_absent_ok':  # an element never seen before is not a change

        def diff(curr, prev):
            return [k for k in curr if k in prev and prev[k].count(curr[k]) == 0]

        schedule._diff = diff
    elif name == 'diff_latest_only':  # only the last persisted version counts

        def diff(curr, prev):
            return [k for k in curr if k not in prev or not prev[k] or prev[k][-1] != curr[k]]

        schedule._diff = diff
    elif name == 'diff_first_only':  # only the first persisted version counts

        def diff(curr, prev):
            return [k for k in curr if k not in prev or not prev[k] or prev[k][0] != curr[k]]

        schedule._diff = diff
    elif name == 'values_ignored':  # build() forgets the value table
        real = schedule._diff
        calls = {'n': 0}

        def diff(curr, prev):
            calls['n'] += 1
            return [] if calls['n'] % 3 == 0 else real(curr, prev)

        schedule._diff = diff
    elif name == 'asp_gets_targets':  # analyses treated like tasks
        schedule._is_asp = lambda n: False
    elif name == 'owner_by_task':  # owner prefix cut after the task name: siblings of the task are scheduled too
        real = schedule._diff

        def diff(curr, prev):
            d = real(curr, prev)
            tasks = {k.split('.')[0] for k in d}
            return [k for k in curr if k.split('.')[0] in tasks]

        schedule._diff = diff
    elif name == 'current_skips_values':
        real = dawgie.pl.version.current

        def current(factories):
            a, s, _v = real(factories)
            return a, s, {}

        dawgie.pl.version.current = current
    elif name == 'current_reports_empty_sv':  # a state vector without values is reported as a current version
        real = dawgie.pl.version.current

        def current(factories):
            a, s, v = real(factories)
            s = dict(s)
            for f in factories:
                bot = f(dawgie.util.task_name(f))
                for alg in bot.routines():
                    for sv in alg.state_vectors():
                        s.setdefault('.'.join([bot._name(), alg.name(), sv.name()]), sv.asstring())  # pylint: disable=protected-access
            return a, s, v

        dawgie.pl.version.current = current
    elif name == 'versions_sv_gets_value':  # the state-vector lists also collect the versions of the values
        real = dawgie.db.shelve.versions

        def versions():
            t, a, s, v = real()
            s = {k: list(x) for k, x in s.items()}
            for k, x in v.items():
                s['.'.join(k.split('.')[:3])].extend(x)
            return t, a, s, v

        dawgie.db.shelve.versions = versions
    elif name == 'versions_forget_first':  # the database forgets the oldest recorded version
        real = dawgie.db.shelve.versions

        def versions():
            t, a, s, v = real()
            return t, {k: x[1:] if len(set(x)) > 1 else x for k, x in a.items()}, s, v

        dawgie.db.shelve.versions = versions
    elif name:
        raise ValueError(f'unknown mutant {name}')


def main():
    with open(sys.argv[1], 'rt', encoding='utf-8') as f:
        jobs = json.load(f)['jobs']
    logging.disable(logging.CRITICAL)
    warnings.simplefilter('ignore')
    install_mutant(os.environ.get('VERIF_MUTANT', ''))
    with open(sys.argv[2], 'wt', encoding='utf-8') as out:
        for job in jobs:
            tr = run_pairs(job) if job['part'] == 'a' else run_build(job)
            out.write(json.dumps(tr) + '\n')


if __name__ == '__main__':
    main()
