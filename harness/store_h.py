'''Replay harness for module Store (C06, C08): the shelve catalogue / primary table.

usage: python -m harness.store_h <in.json> <out.ndjson>      (PYTHONPATH=<repo>/Python:/verif)

in.json  {"jobs": [{"id": n, "events": [{ev, tgt, task, a, s, v, run, c, lvl, to}, ...],
                    "sweep": true|false, "chunk": 0|n, "real_digest": true|false,
                    "env": {"targets": [names added beforehand], "regs": [{task, a, av, s, sv, v, vv} registered
                            beforehand], "runmap": {model run: real run id}}}, ...]}
out      one ndjson line per job: {"tid", "metric_vals", "steps": [{"ev", "args", "st", "obs"}, ...]}

What runs is the REAL code of the working tree:
  * a fresh shelve database (real dbm files in a scratch directory) per job, opened with DBI().open()
  * Update / Load     dawgie.db.connect(alg, task, target).update() / .load()  -> Interface._update/_load
                      -> comms.acquire / Connector.__do -> (vlib.bridge: fake socket) -> REAL comms.Worker.do
                      -> util.append / db.util.encode / move / decode; bytes cross in 7-byte chunks for
                      every third job, so framing and the lock protocol are on the path
  * Remove / Reset / Trace / Next / AddTarget / Register   dawgie.db.remove / reset / trace / next / add / update
  * Worm              dawgie.db.tools.worm.consume(run, target, task, alg, sv, value) with None for what is not given
                      (run id 0 is a given run id); the tool closes the database, the harness opens it again
  * Reopen            DBI().close(); DBI().open()
  * Bump              no call: the harness' algorithm objects declare another version from now on
The optional environment puts the history on a database that is not empty and whose numbers are not single
digits: filler and model names are registered beforehand in an order that gives the model's names numeric ids
such as 1 and 10..19, and the model's runs 1,2,3 are played as e.g. 9,10,11 - so every operation that handles
the stringified keys ("(run, target, task, alg, sv, value)") by text is exposed.  Everything logged (arguments,
state, results) carries the REAL numbers; the specification never looks at ids.
The algorithm objects are minimal real dawgie.Algorithm / StateVector / Value subclasses holding one state
vector with one value (names and versions chosen by the schedule).

Environment stubs (never logic): Twisted reactor (vlib.boot), sockets (vlib.bridge), and the two external
programs md5sum / sha1sum that db.util.encode spawns are answered in process by hashlib with the same output
format (measured: ~90 ms per spawn on this machine, 1.2 ms per update with the stub); jobs with
"real_digest" spawn the real programs.

After every call the harness logs the arguments, what came back, and the projected abstract state as a
DELTA against the previous snapshot of the real tables (entries added / deleted per catalogue table, index
appended or rewritten, primary entries added / deleted with the content and sealed version unpickled from
the blob file each names).  TLC rebuilds the state from the deltas and evaluates every clause; nothing is
judged here.

After every load the harness edits the object it was handed in place (it is the caller's own copy); histories
whose environment says "big" store values padded with 70 KiB of common bytes in front of the content, so large
values differ only in their tail.

VERIF_STORE_MUTANT=<name> applies an in-memory mutant of the real functions (binding demonstration only;
never written to the repository): noversion | nextlen | appendgap | loadlowest | prefix | resetfallback
'''

import ast
import hashlib
import json
import logging
import os
import pickle
import re
import shutil
import sys
import types
import warnings

warnings.simplefilter('ignore')

from vlib import boot, bridge  # noqa: E402

boot.boot()
logging.disable(logging.CRITICAL)

import dawgie  # noqa: E402
import dawgie.context  # noqa: E402
import dawgie.db  # noqa: E402
import dawgie.db.shelve  # noqa: E402
import dawgie.db.shelve.util  # noqa: E402
import dawgie.db.util  # noqa: E402
import dawgie.util  # noqa: E402
import dawgie.db.shelve.comms  # noqa: E402
import dawgie.db.tools.worm as worm  # noqa: E402
from dawgie.db.shelve.state import DBI  # noqa: E402

worm.dawgie = dawgie  # the tool imports dawgie in its __main__ block only
dawgie.db.shelve.comms.DBSerializer.open = staticmethod(lambda: None)  # environment: no listening socket (db.open of the worm tool)

TABLES = ['target', 'task', 'alg', 'state', 'value']
UNTOUCHED = -1
_REAL_SUBPROCESS = getattr(dawgie.db.util, 'subprocess', None)  # a tree that does not spawn programs has no such name


# ------------------------------------------------------------------ environment: digest programs
def _digest_program(cmd, *_a, **_k):
    '''md5sum -b <fn> / sha1sum -b <fn> answered in process'''
    if cmd[0] not in ('md5sum', 'sha1sum') or cmd[1] != '-b':
        raise RuntimeError(f'unexpected external program {cmd}')
    h = hashlib.new(cmd[0][:-3])
    with open(cmd[2], 'rb') as f:
        h.update(f.read())
    return (h.hexdigest() + ' *' + cmd[2] + '\n').encode()


_STUB_SUBPROCESS = types.SimpleNamespace(check_output=_digest_program)


# ------------------------------------------------------------------ minimal real engine classes
def vtuple(code):
    return dawgie.VERSION(code // 10000, (code // 100) % 100, code % 100)


def vcode(ver):
    return ver.design * 10000 + ver.impl * 100 + ver.bugfix


BIG = [False]  # this history stores large values
PAD = bytes(range(256)) * 280  # 70 KiB, the same in every value: large values differ only in their tail
EDITED = -9  # what the harness writes into an object a load handed to it


class Val(dawgie.Value):
    def __init__(self, content=UNTOUCHED, ver=10000):
        dawgie.Value.__init__(self)
        if BIG[0] and content != UNTOUCHED:
            self.pad = PAD  # pickled first: content and sealed version come after 70 KiB of common bytes
        self.content = content
        self._version_ = vtuple(ver)

    def features(self):
        return []


class SV(dawgie.StateVector):
    def __init__(self, name, ver, vals):
        dawgie.StateVector.__init__(self)
        self._name = name
        self._version_ = vtuple(ver)
        for k, v in vals.items():
            self[k] = v

    def name(self):
        return self._name

    def view(self, caller, visitor):
        return


class Alg(dawgie.Algorithm):
    def __init__(self, name, ver, svs):
        dawgie.Algorithm.__init__(self)
        self._name = name
        self._version_ = vtuple(ver)
        self._svs = svs

    def name(self):
        return self._name

    def previous(self):
        return []

    def run(self, ds, ps):
        return

    def state_vectors(self):
        return self._svs


def make_alg(e, cur, content=UNTOUCHED):
    return Alg(e['a'], cur['alg'], [SV(e['s'], cur['sv'], {e['v']: Val(content, cur['val'])})])


# ------------------------------------------------------------------ projection of the real state
_KEY = re.compile(r'^(?:(\d+):parent___)?(.*?)(?:___version:(\d+)\.(\d+)\.(\d+))?$', re.S)


def parse_name(key):
    m = _KEY.match(key)
    p, n, d, i, b = m.groups()
    return {'p': -1 if p is None else int(p), 'n': n, 'v': 0 if d is None else int(d) * 10000 + int(i) * 100 + int(b)}


def blob(name):
    '''what the blob file holds, read independently of db.util.decode'''
    try:
        with open(os.path.join(dawgie.context.data_dbs, name), 'rb') as f:
            obj = pickle.load(f)
        seal = obj.__dict__.get('_version_seal_')
        c = obj.__dict__.get('content', -2)
        return (c if isinstance(c, int) else -2), (vcode(seal) if seal is not None else 0)
    except Exception:  # pylint: disable=broad-except
        return -2, -2


def snapshot():
    tabs, idxs = {}, {}
    for t in TABLES:
        table = getattr(DBI().tables, t)
        tabs[t] = {k: int(v) for k, v in table.items()}
        idxs[t] = list(getattr(DBI().indices, t))
    prime = {}
    for k, name in DBI().tables.prime.items():
        prime[k] = name
    return tabs, idxs, prime


def ent(key, i):
    r = parse_name(key)
    r['id'] = i
    return r


def pent(key, name):
    run, tg, tk, al, sv, vl = ast.literal_eval(key)
    c, seal = blob(name)
    return {'run': run, 'tg': tg, 'tk': tk, 'al': al, 'sv': sv, 'vl': vl, 'c': c, 'seal': seal}


class Projector:
    def __init__(self):
        self.tabs = {t: {} for t in TABLES}
        self.idxs = {t: [] for t in TABLES}
        self.prime = {}  # key -> record

    def delta(self, cur, full_keys):
        tabs, idxs, prime_names = snapshot()
        prime = {k: pent(k, n) for k, n in prime_names.items()}
        st = {'tab_add': {}, 'tab_del': {}, 'idx_mode': {}, 'idx_val': {}}
        for t in TABLES:
            old, new = self.tabs[t], tabs[t]
            st['tab_add'][t] = [ent(k, i) for k, i in new.items() if old.get(k, None) != i]
            st['tab_del'][t] = [ent(k, i) for k, i in old.items() if new.get(k, None) != i]
            oi, ni = self.idxs[t], idxs[t]
            if ni[: len(oi)] == oi:
                st['idx_mode'][t] = 'app'
                st['idx_val'][t] = [parse_name(k) for k in ni[len(oi) :]]
            else:
                st['idx_mode'][t] = 'full'
                st['idx_val'][t] = [parse_name(k) for k in ni]
        st['prime_add'] = [r for k, r in prime.items() if self.prime.get(k) != r]
        st['prime_del'] = [r for k, r in self.prime.items() if prime.get(k) != r]
        st['cur'] = dict(cur)
        # db._prime_keys(): the dotted names the code itself resolves through its indices
        if full_keys:
            st['pk'] = 1
            keys = []
            try:
                for dotted in dawgie.db._prime_keys():  # pylint: disable=protected-access
                    parts = dotted.split('.')
                    keys.append({'run': int(parts[0]), 'tgt': parts[1], 'task': parts[2], 'a': parts[3], 's': parts[4], 'v': '.'.join(parts[5:])})
            except Exception as ex:  # the code cannot resolve its own keys: logged as an unresolvable name  # pylint: disable=broad-except
                keys = [{'run': -1, 'tgt': '!', 'task': type(ex).__name__, 'a': '!', 's': '!', 'v': '!'}]
            st['pkeys'] = keys
        else:
            st['pk'] = 0
            st['pkeys'] = []
        self.tabs, self.idxs, self.prime = tabs, idxs, prime
        return st


# ------------------------------------------------------------------ mutants (self-test of the binding)
def install_mutant(name):
    import dawgie.db.shelve.model as model

    util = dawgie.db.shelve.util
    if name == 'noversion':  # names lose their version: versions share ids
        orig = util.construct
        util.construct = lambda name, parent=None, ver=None: orig(name, parent, None)
    elif name == 'nextlen':  # next run id = number of entries + 1
        dawgie.db.shelve.next = lambda: len(DBI().tables.prime) + 1
    elif name == 'appendgap':  # ids skip a number

        def append(name, table, index, parent=None, ver=None):
            name = util.construct(name, parent, ver)
            if name not in table:
                table[name] = len(index) + (1 if len(index) == 2 else 0)
                index.append(name)
            return True, table[name], name

        util.append = append
    elif name == 'loadlowest':  # fallback takes the lowest instead of the highest run
        import inspect
        import textwrap

        src = textwrap.dedent(inspect.getsource(model.Interface._load))  # pylint: disable=protected-access
        assert 'pk = spks[-1]' in src
        src = src.replace('pk = spks[-1]', 'pk = spks[0]').replace('self.__to_key', 'self._Interface__to_key').replace('self.__null_metric', 'self._Interface__null_metric')
        ns = dict(model.__dict__)
        exec(compile(src, '<mutant _load>', 'exec'), ns)  # pylint: disable=exec-used
        model.Interface._load = ns['_load']  # pylint: disable=protected-access
    elif name == 'prefix':  # the pinned util.subset

        def subset(from_table, name, parents=None):
            result = {}
            for parent in parents or []:
                sn = util.construct(name, parent)
                result.update({k: v for k, v in from_table.items() if k.startswith(sn)})
            if not parents:
                result.update({k: v for k, v in from_table.items() if k.startswith(name)})
            return result

        util.subset = subset
    elif name == 'resetfallback':  # the pinned reset: entries of any algorithm of the task
        import inspect

        src = inspect.getsource(dawgie.db.shelve.reset)
        if 'ptab = {}' in src:
            src = src.replace('ptab = {}', "ptab = util.subset(DBI().tables.prime, str(tuple(pk)).replace(')', ','))")
            ns = dawgie.db.shelve.__dict__
            exec(compile(src, '<mutant reset>', 'exec'), ns)  # pylint: disable=exec-used
    else:
        raise SystemExit(f'unknown mutant {name}')


# ------------------------------------------------------------------ one job
def args_of(e, cur):
    return {
        'tgt': e.get('tgt', ''),
        'task': e.get('task', ''),
        'tks': sorted(e.get('tks') or ([e['task']] if e.get('ev') == 'Trace' and e.get('task') else [])),
        'a': e.get('a', ''),
        's': e.get('s', ''),
        'v': e.get('v', ''),
        'run': int(e.get('run', 0)),
        'c': int(e.get('c', 0)),
        'lvl': e.get('lvl', ''),
        'to': int(e.get('to', 0)),
        'av': cur['alg'],
        'sv': cur['sv'],
        'vv': cur['val'],
    }


def obs0():
    return {'res': 0, 'seal': 0, 'err': False, 'nxt': 0, 'rep': [], 'av1': 0, 'sv1': 0, 'exc': ''}


def perform(e, cur):
    '''execute one event on the real code; returns obs'''
    ev = e['ev']
    obs = obs0()
    try:
        if ev == 'Update':
            alg = make_alg(e, cur, int(e['c']))
            bot = dawgie.Task(e['task'], 0, int(e['run']), e['tgt'])
            dawgie.db.connect(alg, bot, e['tgt']).update()
        elif ev == 'Load':
            alg = make_alg(e, cur)
            bot = dawgie.Task(e['task'], 0, int(e['run']), e['tgt'])
            obs['res'] = UNTOUCHED
            try:
                dawgie.db.connect(alg, bot, e['tgt']).load()
            finally:
                val = alg.state_vectors()[0][e['v']]
                c = getattr(val, 'content', -2)
                obs['res'] = c if isinstance(c, int) else -2
                seal = val.__dict__.get('_version_seal_')
                obs['seal'] = vcode(seal) if seal is not None else 0
                # the loaded object belongs to the caller: a reader may edit it in place; what is stored must not change
                val.content = EDITED
                if hasattr(val, 'pad'):
                    val.pad = b''
        elif ev == 'Remove':
            dawgie.db.remove(int(e['run']), e['tgt'], e['task'], e['a'], e['s'], e['v'])
        elif ev == 'Reset':
            alg = Alg(e['a'], cur['alg'], [SV(e['s'], cur['sv'], {'v': Val(UNTOUCHED, cur['val'])})])
            obs['av1'], obs['sv1'] = cur['alg'], cur['sv']
            try:
                dawgie.db.reset(int(e['run']), e['tgt'], e['task'], alg)
            finally:
                obs['av1'] = vcode(alg._get_ver())  # pylint: disable=protected-access
                obs['sv1'] = vcode(alg.state_vectors()[0]._get_ver())  # pylint: disable=protected-access
                cur['alg'], cur['sv'] = obs['av1'], obs['sv1']
        elif ev == 'Trace':
            tks = sorted(e.get('tks') or [e['task']])
            result = dawgie.db.trace([t + '.' + e['a'] for t in tks])  # ONE call naming the algorithm under every task
            obs['rep'] = [{'task': t, 'tn': tn, 'run': int(per[t + '.' + e['a']])} for tn, per in sorted(result.items()) for t in tks if t + '.' + e['a'] in per]
        elif ev == 'Worm':
            try:
                worm.consume(*[None if x in ('', -1) else x for x in (int(e['run']), e['tgt'], e['task'], e['a'], e['s'], e['v'])])
            finally:
                if not DBI().is_open:  # the tool closes the database when it is done
                    DBI().open()
        elif ev == 'Next':
            obs['nxt'] = int(dawgie.db.next())
        elif ev == 'AddTarget':
            dawgie.db.add(e['tgt'])
        elif ev == 'Register':
            alg = make_alg(e, cur)
            sv = alg.state_vectors()[0]
            dawgie.db.update(dawgie.Task(e['task'], 0, 0, ''), alg, sv, e['v'], sv[e['v']])
        elif ev == 'Reopen':
            DBI().close()
            DBI().open()
        elif ev == 'Bump':
            cur[e['lvl']] = int(e['to'])
        else:
            raise ValueError('unknown event ' + ev)
    except Exception as ex:  # pylint: disable=broad-except
        obs['err'] = True
        obs['exc'] = type(ex).__name__ + ': ' + str(ex)[:120]
    return obs


def _thin(items, cap):
    if len(items) <= cap:
        return items
    step = len(items) / float(cap)
    return [items[int(k * step)] for k in range(cap)]


def sweep_events(done, cur, known):
    '''closing sweep.  Inputs only; what they return is judged by TLC like any other step.
      1. for every identity the history stored, a load for every OTHER known target (nothing was stored there
         under that identity unless the history did so itself: the reference says what must come back)
      2. close + reopen
      3. every stored identity read back on its own target (for each run the history used and one beyond),
         and the loads of 1. again
      4. the next run id'''
    idents = []
    runs = set()
    last = {}
    for a in done:
        if a['ev'] == 'Update':
            key = (a['tgt'], a['task'], a['a'], a['s'], a['v'], a['av'], a['sv'], a['vv'])
            if key not in idents:
                idents.append(key)
            runs.add(a['run'])
            last[key] = a['run']
    runs = sorted(runs) + [max(runs) + 1] if runs else []
    long = len(done) > 6
    own = _thin([(i, r) for i in idents for r in runs], 12 if long else 6)
    seen = set()
    cross = []
    for i in idents:
        for t in known:
            k = (t,) + i[1:]
            if t != i[0] and k not in idents and k not in seen:
                seen.add(k)
                cross.append((k, last[i]))
    cross = _thin(cross, 6 if long else 3)
    evs = []
    now = dict(cur)

    def loads(items):
        for (tgt, task, a, s, v, av, sv, vv), r in sorted(items, key=lambda x: x[0][5:]):
            for lvl, want in (('alg', av), ('sv', sv), ('val', vv)):
                if now[lvl] != want:
                    evs.append({'ev': 'Bump', 'lvl': lvl, 'to': want})
                    now[lvl] = want
            evs.append({'ev': 'Load', 'tgt': tgt, 'task': task, 'a': a, 's': s, 'v': v, 'run': r})

    loads(cross)
    evs.append({'ev': 'Reopen'})
    loads(own + cross)
    evs.append({'ev': 'Next'})
    return evs


def run_job(job, base):
    d = os.path.join(base, f'job{job["id"]}')
    for sub in ('db', 'dbs', 'stg'):
        os.makedirs(os.path.join(d, sub), exist_ok=True)
    dawgie.context.db_path = os.path.join(d, 'db')
    dawgie.context.data_dbs = os.path.join(d, 'dbs')
    dawgie.context.data_stg = os.path.join(d, 'stg')
    if dawgie.context.db_lock:
        dawgie.context.unlock_db()
    if _REAL_SUBPROCESS is not None:
        dawgie.db.util.subprocess = _REAL_SUBPROCESS if job.get('real_digest') else _STUB_SUBPROCESS
    chunk = int(job.get('chunk', 0))
    bridge.install(chunker=bridge.fixed_chunks(chunk) if chunk else None)
    DBI().close()
    DBI().open()
    cur = {'alg': 10000, 'sv': 10000, 'val': 10000}
    # environment of the history (chosen by the driver, logged in the trace header): what the database already
    # knows before the history starts (targets added, engine elements registered - real db.add / db.update calls,
    # no data), and which real run ids stand for the model's runs (a monotone map)
    env = job.get('env') or {}
    BIG[0] = bool(env.get('big'))
    for tn in env.get('targets', []):
        dawgie.db.add(tn)
    for r in env.get('regs', []):
        alg = Alg(r['a'], r['av'], [SV(r['s'], r['sv'], {r['v']: Val(UNTOUCHED, r['vv'])})])
        sv = alg.state_vectors()[0]
        dawgie.db.update(dawgie.Task(r['task'], 0, 0, ''), alg, sv, r['v'], sv[r['v']])
    runmap = {int(k): int(v) for k, v in (env.get('runmap') or {}).items()}
    proj = Projector()
    steps = [{'ev': 'Init', 'args': args_of({}, cur), 'st': proj.delta(cur, True), 'obs': obs0()}]
    done = []

    skipped = []

    def play(e):
        if e['ev'] == 'Bump' and cur[e['lvl']] == int(e['to']):
            # input not applicable: the real reset already left this version (the model leaves the winner open)
            skipped.append(len(steps))
            return
        args = args_of(e, cur)
        obs = perform(e, cur)
        done.append(dict(args, ev=e['ev']))
        steps.append({'ev': e['ev'], 'args': args, 'st': proj.delta(cur, e['ev'] in ('Update', 'Remove', 'Reopen', 'Worm')), 'obs': obs})

    for e in job['events']:
        if int(e.get('run', 0)) in runmap:
            e = dict(e, run=runmap[int(e['run'])])
        play(e)
    if job.get('sweep', True):
        known = [t for t in env.get('targets', []) if not re.match(r'^G\d\d$', t)]
        for a in done:
            if a['tgt'] and a['tgt'] not in known:
                known.append(a['tgt'])
        for e in sweep_events(done, cur, known):
            play(e)
    DBI().close()
    shutil.rmtree(d, True)
    return {'tid': job['id'], 'metric_vals': METRIC_VALS, 'chunk': chunk, 'skipped': len(skipped), 'env': {'targets': env.get('targets', []), 'regs': len(env.get('regs', [])), 'big': bool(env.get('big')), 'runmap': [[k, v] for k, v in sorted(runmap.items())]}, 'steps': steps}


METRIC_VALS = list(dawgie.util.MetricStateVector(dawgie.METRIC(0, 0, 0, 0, 0, 0, 0), dawgie.METRIC(0, 0, 0, 0, 0, 0, 0)).keys())


def main(inp, out):
    with open(inp, 'rt', encoding='utf-8') as f:
        jobs = json.load(f)['jobs']
    mutant = os.environ.get('VERIF_STORE_MUTANT', '')
    if mutant:
        install_mutant(mutant)
    base = boot.boot()[1]
    with open(out, 'wt', encoding='utf-8') as f:
        for job in jobs:
            f.write(json.dumps(run_job(job, base), separators=(',', ':')) + '\n')
    shutil.rmtree(base, True)


if __name__ == '__main__':
    main(sys.argv[1], sys.argv[2])
