#!/bin/sh
# re-runs every kept seeded change (seeded/<id>_m<i>/) against the current checks, one after the other
# usage: tools_seed_regress.sh [pattern]     results: seeded/*/result.txt, summary on stdout
cd "$(dirname "$0")" || exit 2
for d in seeded/${1:-C}*_m*/; do
  n=$(basename "$d"); id=${n%%_*}
  [ -f "$d/patch.diff" ] || continue
  tmp=/tmp/seed_src_$$; rm -rf $tmp; mkdir -p $tmp; cp "$d/patch.diff" "$d/demo.py" "$d/meta.json" $tmp/ 2>/dev/null
  ./tools_seed_eval.sh $tmp "$n" "$id"
  rm -rf $tmp
done
